// C20 engine: allocation-failure enumeration (DESIGN.md section 8).
//
// Behind the malloc/calloc/realloc/free/posix_memalign/mmap/munmap seam (simos) sits a census,
// a failure policy and a live-block table.  For every sampled call the engine runs it once
// fault-free (reference + census of n allocation requests), then fails every position i in
// turn under both policies ("single": request i only; "from": every request >= i), then once
// more with position n (no fault fires: must equal the reference).  Positions are enumerated
// exhaustively; what is sampled is the call and its parameters.
#define SIM_COMMON_IMPL
#include "common.hpp"
#include "runner.hpp"

#include <cerrno>
#include <sys/mman.h>

using namespace sim;

namespace {

typedef std::vector<unsigned char> Bytes;

// ---------------- allocator seam ----------------
struct Block { size_t size; char kind; uint64_t ordinal; uint64_t epoch; };

struct AllocSim {
    bool counting = false;
    uint64_t next_ordinal = 0;   // ordinal of the next allocation request in this call
    int64_t fail_at = -1;        // position to fail (-1: none)
    int64_t fail_at2 = -1;       // second position to fail as well ("pair" policy)
    int mmap_errno = ENOMEM;     // what a failing mmap reports
    bool fail_from = false;      // fail every request >= fail_at
    uint64_t fired = 0;
    uint64_t epoch = 0;          // call counter
    std::map<void *, Block> live;
    std::set<void *> freed_this_call;
    std::vector<std::string> errors; // double free, invalid free, bad munmap
    std::map<std::string, uint64_t> fired_kinds;
    std::string census; // e.g. "mmmM" (m malloc, c calloc, p posix_memalign, M mmap, r realloc)

    void begin_call(int64_t at, bool from, int64_t at2 = -1) {
        next_ordinal = 0; fail_at = at; fail_at2 = at2; fail_from = from; fired = 0; epoch++;
        freed_this_call.clear(); errors.clear(); census.clear(); counting = true;
    }
    void end_call() { counting = false; }
    bool should_fail(char kind) {
        uint64_t ord = next_ordinal++;
        census.push_back(kind);
        if (fail_at < 0) return false;
        bool f = fail_from ? (int64_t) ord >= fail_at : ((int64_t) ord == fail_at || (int64_t) ord == fail_at2);
        if (f) {
            fired++;
            const char *n = kind == 'm' ? "malloc_fail" : kind == 'c' ? "calloc_fail" : kind == 'p' ? "posix_memalign_fail" : kind == 'M' ? "mmap_fail" : "realloc_fail";
            fired_kinds[n]++;
        }
        return f;
    }
    void add(void *p, size_t n, char kind) { if (p) live[p] = Block{n, kind, next_ordinal - 1, epoch}; }
    std::vector<std::string> leaks_of_this_call() {
        std::vector<std::string> out;
        for (auto &kv : live)
            if (kv.second.epoch == epoch) out.push_back(std::string(1, kv.second.kind) + "#" + std::to_string(kv.second.ordinal) + "(" + std::to_string(kv.second.size) + ")");
        return out;
    }
};
AllocSim A;

void *h_malloc(size_t n) {
    int d = simos_suspend();
    void *p = nullptr;
    if (A.counting && A.should_fail('m')) errno = ENOMEM;
    else { p = simos_real_malloc(n); if (A.counting) A.add(p, n, 'm'); }
    simos_resume(d);
    return p;
}
void *h_calloc(size_t a, size_t b) {
    int d = simos_suspend();
    void *p = nullptr;
    if (A.counting && A.should_fail('c')) errno = ENOMEM;
    else { p = simos_real_calloc(a, b); if (A.counting) A.add(p, a * b, 'c'); }
    simos_resume(d);
    return p;
}
void *h_realloc(void *old, size_t n) {
    int d = simos_suspend();
    void *p = nullptr;
    if (A.counting && A.should_fail('r')) errno = ENOMEM;
    else {
        p = simos_real_realloc(old, n);
        if (A.counting && p) { A.live.erase(old); A.add(p, n, 'm'); }
    }
    simos_resume(d);
    return p;
}
void h_free(void *p) {
    if (!p) return;
    int d = simos_suspend();
    auto it = A.live.find(p);
    if (it != A.live.end() && it->second.kind != 'M') {
        A.live.erase(it);
        if (A.counting) A.freed_this_call.insert(p);
        simos_real_free(p);
    } else if (A.counting && A.freed_this_call.count(p)) {
        A.errors.push_back("double-free");
    } else if (A.counting) {
        A.errors.push_back(it != A.live.end() ? "free-of-mapping" : "invalid-free");
    } else simos_real_free(p);
    simos_resume(d);
}
int h_posix_memalign(void **out, size_t al, size_t n) {
    int d = simos_suspend();
    int rc;
    if (A.counting && A.should_fail('p')) rc = ENOMEM;
    else { rc = simos_real_posix_memalign(out, al, n); if (rc == 0 && A.counting) A.add(*out, n, 'p'); }
    simos_resume(d);
    return rc;
}
void *h_mmap(void *addr, size_t len, int prot, int flags, int fd, off_t off) {
    int d = simos_suspend();
    void *p = MAP_FAILED;
    if (A.counting && A.should_fail('M')) errno = A.mmap_errno; // ENOMEM, or EAGAIN (locked-memory limit: mmap(2))
    else { p = simos_real_mmap(addr, len, prot, flags, fd, off); if (p != MAP_FAILED && A.counting) A.add(p, len, 'M'); }
    simos_resume(d);
    return p;
}
int h_munmap(void *addr, size_t len) {
    int d = simos_suspend();
    int rc;
    auto it = A.live.find(addr);
    if (it != A.live.end() && it->second.kind == 'M' && it->second.size == len) {
        A.live.erase(it);
        rc = simos_real_munmap(addr, len);
    } else if (A.counting) {
        A.errors.push_back(it != A.live.end() ? "munmap-wrong-length" : "munmap-of-unknown-range");
        rc = 0;
    } else rc = simos_real_munmap(addr, len);
    simos_resume(d);
    return rc;
}

// ---------------- plan ----------------
enum Api { A_PWHASH = 0, A_STR, A_VERIFY, A_NEEDS_REHASH, A_SCRYPT, A_SCRYPT_LL, A_SCRYPT_STR, A_SCRYPT_VERIFY, A_SMALLOC, A_SALLOCARRAY, A_NAPI };
const char *api_name[A_NAPI] = {"pwhash", "pwhash_str", "pwhash_str_verify", "pwhash_str_needs_rehash", "scrypt", "scrypt_ll", "scrypt_str", "scrypt_str_verify",
                                "sodium_malloc", "sodium_allocarray"};

struct Op {
    int api = A_PWHASH;
    int alg = 1;        // 0 argon2i, 1 argon2id
    int form = 0;       // 0 generic dispatcher (crypto_pwhash*), 1 algorithm-specific function, 2 (str only) crypto_pwhash_str default
    uint32_t pwlen = 8, outlen = 32, ops = 3, mem_kib = 8;
    int variant = 0;    // verify: 0 correct pw, 1 wrong pw, 2 string of the other algorithm, 3 truncated string, 4 garbage; needs_rehash: 0 match, 1 differ, 3/4 bad string
    uint64_t size = 0, count = 0; // guarded allocation
    uint32_t N = 2, r = 1, p = 1; // scrypt_ll
    int only_pos = -1;  // -1: enumerate every position; otherwise just this one (used by the shrinker)
    int only_policy = -1; // -1 both, 0 single, 1 from
};

struct PlanT {
    Json pk;
    uint64_t content_seed = 0;
    bool pairs = false; // additionally fail every pair of positions (i, j)
    bool mmap_eagain = false; // a failing mmap reports EAGAIN instead of ENOMEM
    int stack_fill = 0;       // stale stack under every library call: 0 as left by the harness, 1 zeros, 2 the address of a tripwire buffer, 3 0xA5 bytes
    std::vector<Op> ops;
};

struct CallResult {
    long rc = 0;
    Bytes out;
    bool operator==(const CallResult &o) const { return rc == o.rc && out == o.out; }
};

struct Exec {
    const PlanT &plan;
    Result res;
    Digest dg;
    int step = 0;
    bool any_fault = false;
    explicit Exec(const PlanT &p) : plan(p) {}

    Bytes content(size_t n, uint64_t salt) {
        Bytes b(n);
        Rng r(mix64(plan.content_seed, salt));
        r.fill(b.data(), n);
        for (auto &c : b) c = (unsigned char) ('a' + c % 26); // printable, no NUL (passwords are C strings for some APIs)
        return b;
    }

    // strings needed by verify / needs_rehash are produced fault-free, outside the census
    std::string make_str(const Op &op, int alg, const Bytes &pw) {
        char s[crypto_pwhash_STRBYTES];
        memset(s, 0, sizeof s);
        g_src.reset(mix64(plan.content_seed, 0x5a17));
        LibScope l;
        int rc = alg == 0 ? crypto_pwhash_argon2i_str(s, (const char *) pw.data(), pw.size(), std::max<uint32_t>(op.ops, 3), (size_t) op.mem_kib * 1024)
                          : crypto_pwhash_argon2id_str(s, (const char *) pw.data(), pw.size(), op.ops, (size_t) op.mem_kib * 1024);
        if (rc != 0) return "";
        return s;
    }
    std::string make_scrypt_str(const Bytes &pw) {
        char s[crypto_pwhash_scryptsalsa208sha256_STRBYTES];
        memset(s, 0, sizeof s);
        g_src.reset(mix64(plan.content_seed, 0x5a18));
        LibScope l;
        if (crypto_pwhash_scryptsalsa208sha256_str(s, (const char *) pw.data(), pw.size(), crypto_pwhash_scryptsalsa208sha256_OPSLIMIT_MIN,
                                                   crypto_pwhash_scryptsalsa208sha256_MEMLIMIT_MIN) != 0) return "";
        return s;
    }

    struct Prepared { Bytes pw, pw2, salt; std::string str; };

    Prepared prepare(const Op &op, size_t opi) {
        Prepared P;
        P.pw = content(op.pwlen, 0x100 + opi);
        P.pw2 = P.pw;
        if (P.pw2.empty()) P.pw2.push_back('x'); else P.pw2[P.pw2.size() / 2] ^= 1;
        P.salt = content(32, 0x200 + opi);
        if (op.api == A_VERIFY || op.api == A_NEEDS_REHASH) {
            int salg = (op.api == A_VERIFY && op.variant == 2) ? 1 - op.alg : op.alg;
            P.str = make_str(op, salg, P.pw);
            if (op.variant == 3 && P.str.size() > 10) P.str.resize(P.str.size() - 7);
            if (op.variant == 4) P.str = "$argon2id$v=19$m=8,t=1,p=1$garbage!";
        } else if (op.api == A_SCRYPT_VERIFY) {
            P.str = make_scrypt_str(P.pw);
            if (op.variant == 3 && P.str.size() > 10) P.str.resize(P.str.size() - 7);
            if (op.variant == 4 && P.str.size() > 20) P.str[20] = '!';
        }
        return P;
    }

    // the call under test; allocator policy is already armed
    CallResult call(const Op &op, const Prepared &P) {
        CallResult cr;
        g_src.reset(mix64(plan.content_seed, 0xca11));
        size_t mem = (size_t) op.mem_kib * 1024;
        unsigned long long ops = op.ops;
        if (op.alg == 0 && ops < 3) ops = 3;
        const char *pw = (const char *) P.pw.data();
        LibScope l;
        switch (op.api) {
        case A_PWHASH: {
            cr.out.assign(op.outlen, 0xEE);
            if (op.variant == 4) {
                // the output buffer IS the password buffer (the current tree refuses that with EINVAL before asking for any
                // memory; a tree that supports it must still fail closed)
                cr.out.assign(std::max<size_t>(op.outlen, P.pw.size()), 0xEE);
                if (!P.pw.empty()) memcpy(cr.out.data(), P.pw.data(), P.pw.size());
                pw = (const char *) cr.out.data();
            }
            if (op.form == 0) cr.rc = crypto_pwhash(cr.out.data(), op.outlen, pw, P.pw.size(), P.salt.data(), ops, mem, op.alg == 0 ? crypto_pwhash_ALG_ARGON2I13 : crypto_pwhash_ALG_ARGON2ID13);
            else if (op.alg == 0) cr.rc = crypto_pwhash_argon2i(cr.out.data(), op.outlen, pw, P.pw.size(), P.salt.data(), ops, mem, crypto_pwhash_argon2i_ALG_ARGON2I13);
            else cr.rc = crypto_pwhash_argon2id(cr.out.data(), op.outlen, pw, P.pw.size(), P.salt.data(), ops, mem, crypto_pwhash_argon2id_ALG_ARGON2ID13);
            break;
        }
        case A_STR: {
            cr.out.assign(crypto_pwhash_STRBYTES, 0);
            char *s = (char *) cr.out.data();
            if (op.form == 2) cr.rc = crypto_pwhash_str(s, pw, P.pw.size(), op.ops, mem);
            else if (op.form == 0) cr.rc = crypto_pwhash_str_alg(s, pw, P.pw.size(), ops, mem, op.alg == 0 ? crypto_pwhash_ALG_ARGON2I13 : crypto_pwhash_ALG_ARGON2ID13);
            else if (op.alg == 0) cr.rc = crypto_pwhash_argon2i_str(s, pw, P.pw.size(), ops, mem);
            else cr.rc = crypto_pwhash_argon2id_str(s, pw, P.pw.size(), ops, mem);
            break;
        }
        case A_VERIFY: {
            const Bytes &use = op.variant == 1 ? P.pw2 : P.pw;
            if (op.form == 0) cr.rc = crypto_pwhash_str_verify(P.str.c_str(), (const char *) use.data(), use.size());
            else if (op.alg == 0) cr.rc = crypto_pwhash_argon2i_str_verify(P.str.c_str(), (const char *) use.data(), use.size());
            else cr.rc = crypto_pwhash_argon2id_str_verify(P.str.c_str(), (const char *) use.data(), use.size());
            break;
        }
        case A_NEEDS_REHASH: {
            unsigned long long o2 = op.variant == 1 ? ops + 1 : ops;
            if (op.form == 0) cr.rc = crypto_pwhash_str_needs_rehash(P.str.c_str(), o2, mem);
            else if (op.alg == 0) cr.rc = crypto_pwhash_argon2i_str_needs_rehash(P.str.c_str(), o2, mem);
            else cr.rc = crypto_pwhash_argon2id_str_needs_rehash(P.str.c_str(), o2, mem);
            break;
        }
        case A_SCRYPT:
            cr.out.assign(op.outlen, 0xEE);
            cr.rc = crypto_pwhash_scryptsalsa208sha256(cr.out.data(), op.outlen, pw, P.pw.size(), P.salt.data(), crypto_pwhash_scryptsalsa208sha256_OPSLIMIT_MIN,
                                                       crypto_pwhash_scryptsalsa208sha256_MEMLIMIT_MIN);
            break;
        case A_SCRYPT_LL:
            cr.out.assign(op.outlen, 0xEE);
            cr.rc = crypto_pwhash_scryptsalsa208sha256_ll(P.pw.data(), P.pw.size(), P.salt.data(), 16, op.N, op.r, op.p, cr.out.data(), op.outlen);
            break;
        case A_SCRYPT_STR:
            cr.out.assign(crypto_pwhash_scryptsalsa208sha256_STRBYTES, 0);
            cr.rc = crypto_pwhash_scryptsalsa208sha256_str((char *) cr.out.data(), pw, P.pw.size(), crypto_pwhash_scryptsalsa208sha256_OPSLIMIT_MIN,
                                                           crypto_pwhash_scryptsalsa208sha256_MEMLIMIT_MIN);
            break;
        case A_SCRYPT_VERIFY: {
            const Bytes &use = op.variant == 1 ? P.pw2 : P.pw;
            cr.rc = crypto_pwhash_scryptsalsa208sha256_str_verify(P.str.c_str(), (const char *) use.data(), use.size());
            break;
        }
        case A_SMALLOC:
        case A_SALLOCARRAY: {
            void *p = op.api == A_SMALLOC ? sodium_malloc((size_t) op.size) : sodium_allocarray((size_t) op.count, (size_t) op.size);
            cr.rc = p ? 0 : -1;
            if (p) {
                // the allocation must be usable; then give it back with the failure policy disarmed
                size_t n = op.api == A_SMALLOC ? (size_t) op.size : (size_t) (op.count * op.size);
                if (n) { ((volatile unsigned char *) p)[0] = 1; ((volatile unsigned char *) p)[n - 1] = 2; }
                int64_t fa = A.fail_at; A.fail_at = -1;
                sodium_free(p);
                A.fail_at = fa;
            }
            break;
        }
        }
        if (cr.rc != 0) cr.out.clear(); // output contents after a failed call are unspecified by the property
        return cr;
    }

    // a pointer the library never obtained from the allocator: freeing or unmapping it is recorded by the allocator
    // model as misuse, writing through it is seen in the buffer afterwards
    static unsigned char *tripwire() { static unsigned char *t = (unsigned char *) calloc(1, 8192); return t; }
    CallResult armed_call(const Op &op, const Prepared &P, int64_t at, bool from, int64_t at2 = -1) {
        A.begin_call(at, from, at2);
        if (plan.stack_fill == 1) dirty_stack(0);
        else if (plan.stack_fill == 2) dirty_stack((uint64_t) (uintptr_t) (tripwire() + 4096));
        else if (plan.stack_fill == 3) dirty_stack(0xA5A5A5A5A5A5A5A5ull);
        CallResult cr = call(op, P);
        A.end_call();
        if (plan.stack_fill == 2) {
            unsigned char acc = 0;
            for (size_t i = 0; i < 8192; i++) acc |= tripwire()[i];
            if (acc) { memset(tripwire(), 0, 8192); A.errors.push_back("write-through-uninitialised-pointer (a stale stack word was used as an address)"); }
        }
        return cr;
    }

    std::string locus(const Op &op, char kind, int pos) { return std::string(api_name[op.api]) + "/" + kind + "#" + std::to_string(pos); }

    void do_op(const Op &op, size_t opi) {
        Prepared P = prepare(op, opi);
        CallResult ref = armed_call(op, P, -1, false);
        std::string census = A.census;
        size_t n = census.size();
        if (!A.errors.empty()) { res.fail("allocator-misuse", std::string(api_name[op.api]) + "/fault-free", A.errors[0] + " in the fault-free execution", step); return; }
        auto leaks0 = A.leaks_of_this_call();
        if (!leaks0.empty()) { res.fail("leak", std::string(api_name[op.api]) + "/fault-free", "fault-free execution leaks " + leaks0[0], step); return; }
        res.count(std::string("probe.census.") + api_name[op.api] + "=" + census);
        dg.add((uint64_t) op.api); dg.add((uint64_t) op.alg * 16 + (uint64_t) op.form); dg.add((uint64_t) op.variant); dg.add(census);
        dg.add((uint64_t) ref.rc); dg.add(ref.out.data(), ref.out.size());
        dg.add((uint64_t) op.pwlen << 32 | op.outlen); dg.add((uint64_t) op.ops << 32 | op.mem_kib); dg.add(op.size); dg.add(op.count);
        for (size_t pos = 0; pos <= n && !res.violated; pos++) {
            if (op.only_pos >= 0 && (size_t) op.only_pos != pos && pos != n) continue;
            for (int pol = 0; pol < 2 && !res.violated; pol++) {
                if (op.only_policy >= 0 && op.only_policy != pol) continue;
                CallResult cr = armed_call(op, P, (int64_t) pos, pol == 1);
                uint64_t fired = A.fired;
                res.steps++;
                dg.add((uint64_t) cr.rc); dg.add((uint64_t) fired);
                char kind = pos < n ? census[pos] : '-';
                std::string loc = locus(op, kind, (int) pos);
                if (!A.errors.empty()) { res.fail("allocator-misuse", loc, A.errors[0] + " when request " + std::to_string(pos) + " fails (" + (pol ? "from" : "single") + ")", step); break; }
                auto leaks = A.leaks_of_this_call();
                if (!leaks.empty()) { res.fail("leak", loc, "block " + leaks[0] + " still live after the call returned (request " + std::to_string(pos) + " failed, " + (pol ? "from" : "single") + ")", step); break; }
                if (fired) {
                    any_fault = true;
                    res.count("probe.faulted_executions");
                    if (cr.rc == 0) {
                        res.fail("success-despite-failed-allocation", loc, std::string(api_name[op.api]) + " returned success although allocation request " + std::to_string(pos) + " (" + kind + ") failed (" + (pol ? "from" : "single") + ")", step);
                        break;
                    }
                    if (op.api == A_NEEDS_REHASH && cr.rc != -1) {
                        res.fail("non-error-despite-failed-allocation", loc, "needs_rehash returned " + std::to_string(cr.rc) + " although its allocation failed", step);
                        break;
                    }
                } else {
                    // no fault fired (position n, or a path that stopped allocating earlier): must equal the reference
                    if (!(cr == ref)) { res.fail("harness-offbyone", loc, "execution without a fired fault differs from the reference", step); break; }
                }
            }
        }
        // pairs: requests i and j both fail (a failure on the error path of an earlier failure); all i < j
        if (plan.pairs && n >= 2 && n <= 12 && op.only_pos < 0) {
            for (size_t i = 0; i + 1 < n && !res.violated; i++) for (size_t j = i + 1; j < n && !res.violated; j++) {
                CallResult cr = armed_call(op, P, (int64_t) i, false, (int64_t) j);
                res.steps++;
                dg.add((uint64_t) cr.rc); dg.add((uint64_t) A.fired);
                std::string loc = locus(op, census[i], (int) i) + "+" + std::to_string(j);
                if (!A.errors.empty()) { res.fail("allocator-misuse", loc, A.errors[0] + " when requests " + std::to_string(i) + " and " + std::to_string(j) + " fail", step); break; }
                auto leaks = A.leaks_of_this_call();
                if (!leaks.empty()) { res.fail("leak", loc, "block " + leaks[0] + " still live after the call returned (requests " + std::to_string(i) + " and " + std::to_string(j) + " failed)", step); break; }
                if (A.fired) {
                    res.count("probe.pair_faulted_executions");
                    if (cr.rc == 0) { res.fail("success-despite-failed-allocation", loc, std::string(api_name[op.api]) + " returned success although allocation requests " + std::to_string(i) + " and " + std::to_string(j) + " failed", step); break; }
                    if (op.api == A_NEEDS_REHASH && cr.rc != -1) { res.fail("non-error-despite-failed-allocation", loc, "needs_rehash returned " + std::to_string(cr.rc), step); break; }
                }
            }
        }
        if (res.violated) return;
        // nothing was left corrupted: a fault-free call with the same arguments equals the reference
        CallResult again = armed_call(op, P, -1, false);
        if (!(again == ref)) res.fail("corrupted-after-fault", std::string(api_name[op.api]) + "/rerun", "a fault-free call after the faulted ones no longer equals the reference", step);
        else res.count("probe.rerun_equal");
        for (auto &kv : A.fired_kinds) res.count("fault." + kv.first, kv.second);
        A.fired_kinds.clear();
    }

    Result run() {
        A.mmap_errno = plan.mmap_eagain ? EAGAIN : ENOMEM;
        res.count(std::string("knob.mmap_errno=") + (plan.mmap_eagain ? "EAGAIN" : "ENOMEM"));
        res.count("knob.stale_stack=" + std::string(plan.stack_fill == 0 ? "as-is" : plan.stack_fill == 1 ? "zeros" : plan.stack_fill == 2 ? "tripwire-pointer" : "0xA5"));
        for (size_t i = 0; i < plan.ops.size() && !res.violated; i++) { step = (int) i; do_op(plan.ops[i], i); }
        A.fired_kinds.clear();
        res.digest = dg.value();
        res.nontrivial = any_fault;
        res.count(std::string("knob.cpu_disable=") + cpu_mask_name((unsigned) plan.pk.at("cpu_disable").u64()));
        return res;
    }
};

#ifndef C20_VARIANT
#define C20_VARIANT "mmap"
#endif

struct C20 {
    typedef PlanT Plan;
    static const char *property() { return "C20"; }
    static const char *name() { return "c20_oom"; }
    static const char *level() { return "fault_enumeration"; }
    static const char *rule() {
        return "seeded sample of calls {pwhash raw/str/str_verify/needs_rehash for argon2i and argon2id through the generic and the algorithm-specific entry points, "
               "scrypt raw/_ll/str/str_verify, sodium_malloc, sodium_allocarray} x parameters; for each call the sequence of allocation requests "
               "(malloc/calloc/posix_memalign/mmap) is recorded fault-free and then EVERY position is failed in turn under two policies (that request only; "
               "that and all later ones), plus one execution past the end; in a share of the runs additionally every pair of positions (i, j). evaluations = sampled runs (1-4 calls each); non-trivial = at least one injected "
               "failure fired; distinct = distinct digests of (call, parameters, census, per-position outcomes)";
    }
    static size_t batch_size(bool) { return 40; }
    static uint64_t default_runs(bool thorough) { return thorough ? 4000000 : 400000; }
    static double default_time(bool thorough) { return thorough ? 80 : 5; }
    static void selftest() {}
    static Json pknobs(uint64_t seed, uint64_t batch, bool) {
        Rng r(mix64(seed, batch), "pknobs");
        Json pk = Json::object();
        pk["cpu_disable"] = cpu_masks()[r.below(cpu_masks().size())];
        pk["alloc_variant"] = C20_VARIANT;
        return pk;
    }
    static void proc_setup(const Json &pk) {
        _sodium_verif_cpu_disable_mask = (unsigned) pk.at("cpu_disable").u64();
        randombytes_set_implementation(scripted_impl());
        g_src.reset(1);
        simos_hooks.malloc_ = h_malloc; simos_hooks.calloc_ = h_calloc; simos_hooks.realloc_ = h_realloc; simos_hooks.free_ = h_free;
        simos_hooks.posix_memalign_ = h_posix_memalign; simos_hooks.mmap_ = h_mmap; simos_hooks.munmap_ = h_munmap;
        LibScope l;
        if (sodium_init() < 0) { fprintf(stderr, "sodium_init failed\n"); _exit(3); }
    }

    static Plan generate(uint64_t seed, uint64_t run, const Json &pk, bool thorough) {
        uint64_t rs = mix64(seed, run);
        Rng r(rs, "ops");
        Plan p;
        p.pk = pk;
        p.content_seed = mix64(rs, 0xc20);
        p.pairs = thorough ? r.chance(1, 2) : r.chance(1, 6);
        p.mmap_eagain = r.chance(1, 3);
        { Rng f(rs, "faults"); p.stack_fill = (int) f.pick<int>({0, 1, 2, 2, 2, 3}); }
        size_t nops = (size_t) r.range(1, 4);
        for (size_t i = 0; i < nops; i++) {
            Op op;
            unsigned c = (unsigned) r.below(100);
            op.api = c < 18 ? A_PWHASH : c < 36 ? A_STR : c < 58 ? A_VERIFY : c < 68 ? A_NEEDS_REHASH : c < 72 ? A_SCRYPT : c < 80 ? A_SCRYPT_LL : c < 84 ? A_SCRYPT_STR
                     : c < 88 ? A_SCRYPT_VERIFY : c < 95 ? A_SMALLOC : A_SALLOCARRAY;
            op.alg = (int) r.below(2);
            op.form = (int) r.below(op.api == A_STR ? 3 : 2);
            if (op.api == A_STR && op.form == 2) op.alg = 1;
            op.pwlen = (uint32_t) r.pick<uint32_t>({0, 1, 8, 16, 31, 64, 128});
            op.outlen = (uint32_t) r.pick<uint32_t>({16, 17, 32, 64, 65, 128});
            op.ops = (uint32_t) r.range(1, 4);
            op.mem_kib = (uint32_t) r.pick<uint32_t>({8, 9, 16, 32, 64, 100, 256, (uint32_t) (thorough ? 1024 : 128)});
            op.variant = (int) r.below(5);
            if (op.api == A_NEEDS_REHASH && op.variant == 2) op.variant = 0;
            op.N = 1u << r.range(1, 4); op.r = (uint32_t) r.range(1, 2); op.p = (uint32_t) r.range(1, 2);
            // rarely a working area of the size class of the "sensitive" limits (a little over 128 MiB): allocation code paths
            // that depend on the size of the request (huge pages, chunking) only run there
            // (thorough tier only: at -O0 one such operation with all its failure positions takes longer than the quick tier's watchdog allows)
            if (thorough && r.below(300) == 0) { op.api = A_SCRYPT_LL; op.N = 1u << 17; op.r = 8; op.p = 1; }
            op.size = r.pick<uint64_t>({0, 1, 15, 16, 17, 4080, 4081, 4096, 8192, 100000});
            op.count = r.pick<uint64_t>({0, 1, 3, 16, 1000});
            if (op.api == A_SALLOCARRAY) op.size = r.pick<uint64_t>({0, 1, 8, 24, 4096});
            p.ops.push_back(op);
        }
        return p;
    }

    static Json to_json(const Plan &p) {
        Json j = Json::object();
        j["knobs"] = p.pk; j["content_seed"] = p.content_seed; j["pairs"] = p.pairs; j["mmap_eagain"] = p.mmap_eagain; j["stale_stack"] = p.stack_fill;
        Json ops = Json::array();
        for (auto &o : p.ops) {
            Json q = Json::object();
            q["api"] = api_name[o.api]; q["alg"] = o.alg == 0 ? "argon2i" : "argon2id"; q["form"] = o.form; q["pwlen"] = o.pwlen; q["outlen"] = o.outlen;
            q["opslimit"] = o.ops; q["mem_kib"] = o.mem_kib; q["variant"] = o.variant; q["size"] = o.size; q["count"] = o.count;
            q["N"] = o.N; q["r"] = o.r; q["p"] = o.p; q["only_pos"] = o.only_pos; q["only_policy"] = o.only_policy;
            ops.push(q);
        }
        j["ops"] = ops;
        return j;
    }
    static Plan from_json(const Json &j) {
        Plan p;
        p.pk = j.at("knobs"); p.content_seed = j.at("content_seed").u64(); p.pairs = j.at("pairs").boolean(); p.mmap_eagain = j.at("mmap_eagain").boolean(); p.stack_fill = (int) j.at("stale_stack").i64();
        for (auto &q : j.at("ops").a) {
            Op o;
            for (int i = 0; i < A_NAPI; i++) if (q.at("api").str() == api_name[i]) o.api = i;
            o.alg = q.at("alg").str() == "argon2i" ? 0 : 1; o.form = (int) q.at("form").i64(); o.pwlen = (uint32_t) q.at("pwlen").u64();
            o.outlen = (uint32_t) q.at("outlen").u64(); o.ops = (uint32_t) q.at("opslimit").u64(); o.mem_kib = (uint32_t) q.at("mem_kib").u64();
            o.variant = (int) q.at("variant").i64(); o.size = q.at("size").u64(); o.count = q.at("count").u64();
            o.N = (uint32_t) q.at("N").u64(2); o.r = (uint32_t) q.at("r").u64(1); o.p = (uint32_t) q.at("p").u64(1);
            o.only_pos = (int) q.at("only_pos").i64(-1); o.only_policy = (int) q.at("only_policy").i64(-1);
            if (o.outlen < 16) o.outlen = 16;
            if (o.mem_kib < 8) o.mem_kib = 8;
            if (o.ops < 1) o.ops = 1;
            p.ops.push_back(o);
        }
        return p;
    }
    static Result execute(const Plan &p) { Exec e(p); return e.run(); }

    static std::vector<Plan> simplify(const Plan &p) {
        std::vector<Plan> out;
        if (p.pk.at("cpu_disable").u64() != 0) { Plan c = p; c.pk["cpu_disable"] = 0u; out.push_back(c); }
        if (p.pairs) { Plan c = p; c.pairs = false; out.push_back(c); }
        if (p.mmap_eagain) { Plan c = p; c.mmap_eagain = false; out.push_back(c); }
        if (p.stack_fill) { Plan c = p; c.stack_fill = 0; out.push_back(c); }
        for (size_t i = 0; i < p.ops.size(); i++) {
            const Op &o = p.ops[i];
            if (o.only_pos < 0) for (int pos = 0; pos < 10; pos++) { Plan c = p; c.ops[i].only_pos = pos; out.push_back(c); }
            if (o.only_policy < 0) for (int pol = 0; pol < 2; pol++) { Plan c = p; c.ops[i].only_policy = pol; out.push_back(c); }
            if (o.pwlen > 8) { Plan c = p; c.ops[i].pwlen = 8; out.push_back(c); }
            if (o.outlen != 32) { Plan c = p; c.ops[i].outlen = 32; out.push_back(c); }
            if (o.mem_kib != 8) { Plan c = p; c.ops[i].mem_kib = 8; out.push_back(c); }
            if (o.ops > 1) { Plan c = p; c.ops[i].ops = 1; out.push_back(c); }
            if (o.size > 16) { Plan c = p; c.ops[i].size = 16; out.push_back(c); }
        }
        return out;
    }

    static void describe(Json &ev) {
        Json comp = Json::object(), real = Json::array(), stub = Json::array();
        real.push("all of libsodium compiled from /repo's working tree (argon2, scrypt, pwhash string APIs, guarded allocator); allocator build variant: " C20_VARIANT);
        real.push("glibc allocator and kernel mappings for every request that is not failed");
        stub.push("allocation failure policy + census + live-block table behind --wrap=malloc,calloc,realloc,free,posix_memalign,mmap,munmap");
        stub.push("random source (scripted randombytes_implementation: salts and output pre-fill are replayed identically in every execution of a call)");
        comp["real"] = real; comp["stub"] = stub;
        ev["components"] = comp;
        Json as = Json::array();
        as.push("errno and the contents of output buffers after a failed call are not constrained (the property does not state them)");
        as.push("every position of the allocation sequence is failed for each sampled call (exhaustive per call); calls and parameters are sampled");
        as.push("mlock/munlock/madvise/mprotect are not failed here (they are not allocations or mappings)");
        ev["assumptions"] = as;
        ev["x_alloc_variant"] = C20_VARIANT;
        ev["simulated_time_note"] = "no clock involved; sim_steps counts faulted executions";
    }
};

} // namespace

int main(int argc, char **argv) {
    Runner<C20> r;
    return r.main(argc, argv);
}
