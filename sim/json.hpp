// Minimal JSON value (ordered objects, exact 64-bit integers) used for plans, replay
// files, worker result lines and evidence files.
#pragma once
#include <cstdint>
#include <cstdio>
#include <cstdlib>
#include <map>
#include <stdexcept>
#include <string>
#include <utility>
#include <vector>

namespace sim {

struct Json {
    enum Kind { Null, Bool, Int, Dbl, Str, Arr, Obj } kind = Null;
    bool b = false;
    bool neg = false;
    uint64_t u = 0;
    double d = 0;
    std::string s;
    std::vector<Json> a;
    std::vector<std::pair<std::string, Json>> o;

    Json() {}
    Json(bool v) : kind(Bool), b(v) {}
    Json(int v) : kind(Int), neg(v < 0), u(v < 0 ? (uint64_t) (-(int64_t) v) : (uint64_t) v) {}
    Json(unsigned v) : kind(Int), u(v) {}
    Json(long v) : kind(Int), neg(v < 0), u(v < 0 ? (uint64_t) 0 - (uint64_t) v : (uint64_t) v) {}
    Json(long long v) : kind(Int), neg(v < 0), u(v < 0 ? (uint64_t) 0 - (uint64_t) v : (uint64_t) v) {}
    Json(unsigned long v) : kind(Int), u(v) {}
    Json(unsigned long long v) : kind(Int), u(v) {}
    Json(double v) : kind(Dbl), d(v) {}
    Json(const char *v) : kind(Str), s(v) {}
    Json(const std::string &v) : kind(Str), s(v) {}
    static Json array() { Json j; j.kind = Arr; return j; }
    static Json object() { Json j; j.kind = Obj; return j; }

    bool is_null() const { return kind == Null; }
    bool has(const std::string &k) const {
        for (auto &kv : o) if (kv.first == k) return true;
        return false;
    }
    const Json &at(const std::string &k) const {
        for (auto &kv : o) if (kv.first == k) return kv.second;
        static Json nul;
        return nul;
    }
    Json &operator[](const std::string &k) {
        if (kind == Null) kind = Obj;
        for (auto &kv : o) if (kv.first == k) return kv.second;
        o.emplace_back(k, Json());
        return o.back().second;
    }
    void push(const Json &v) { if (kind == Null) kind = Arr; a.push_back(v); }
    uint64_t u64(uint64_t dflt = 0) const {
        if (kind == Int) return neg ? (uint64_t) 0 - u : u;
        if (kind == Dbl) return (uint64_t) d;
        if (kind == Bool) return b;
        return dflt;
    }
    int64_t i64(int64_t dflt = 0) const {
        if (kind == Int) return neg ? -(int64_t) u : (int64_t) u;
        if (kind == Dbl) return (int64_t) d;
        if (kind == Bool) return b;
        return dflt;
    }
    bool boolean(bool dflt = false) const {
        if (kind == Bool) return b;
        if (kind == Int) return u != 0;
        return dflt;
    }
    const std::string &str() const { return s; }
    std::string str_or(const std::string &dflt) const { return kind == Str ? s : dflt; }

    static void esc(const std::string &in, std::string &out) {
        out.push_back('"');
        for (unsigned char c : in) {
            switch (c) {
            case '"': out += "\\\""; break;
            case '\\': out += "\\\\"; break;
            case '\n': out += "\\n"; break;
            case '\t': out += "\\t"; break;
            case '\r': out += "\\r"; break;
            default:
                if (c < 0x20) { char buf[8]; snprintf(buf, sizeof buf, "\\u%04x", c); out += buf; }
                else out.push_back((char) c);
            }
        }
        out.push_back('"');
    }
    void dump_to(std::string &out, int indent = -1, int level = 0) const {
        auto nl = [&](int lv) {
            if (indent < 0) return;
            out.push_back('\n');
            out.append((size_t) (lv * indent), ' ');
        };
        switch (kind) {
        case Null: out += "null"; break;
        case Bool: out += b ? "true" : "false"; break;
        case Int: { if (neg && u) out.push_back('-'); out += std::to_string(u); break; }
        case Dbl: { char buf[40]; snprintf(buf, sizeof buf, "%.6g", d); out += buf; break; }
        case Str: esc(s, out); break;
        case Arr:
            out.push_back('[');
            for (size_t i = 0; i < a.size(); i++) {
                if (i) out.push_back(',');
                nl(level + 1);
                a[i].dump_to(out, indent, level + 1);
            }
            if (!a.empty()) nl(level);
            out.push_back(']');
            break;
        case Obj:
            out.push_back('{');
            for (size_t i = 0; i < o.size(); i++) {
                if (i) out.push_back(',');
                nl(level + 1);
                esc(o[i].first, out);
                out.push_back(':');
                if (indent >= 0) out.push_back(' ');
                o[i].second.dump_to(out, indent, level + 1);
            }
            if (!o.empty()) nl(level);
            out.push_back('}');
            break;
        }
    }
    std::string dump(int indent = -1) const { std::string r; dump_to(r, indent); return r; }

    // ---- parser ----
    struct P {
        const char *p, *e;
        void ws() { while (p < e && (*p == ' ' || *p == '\n' || *p == '\t' || *p == '\r')) ++p; }
        [[noreturn]] void fail(const char *m) { throw std::runtime_error(std::string("json: ") + m); }
        Json val() {
            ws();
            if (p >= e) fail("eof");
            char c = *p;
            if (c == '{') {
                ++p; Json j = Json::object(); ws();
                if (p < e && *p == '}') { ++p; return j; }
                for (;;) {
                    ws(); if (p >= e || *p != '"') fail("key");
                    std::string k = strv(); ws();
                    if (p >= e || *p != ':') fail("colon");
                    ++p; j.o.emplace_back(k, val()); ws();
                    if (p < e && *p == ',') { ++p; continue; }
                    if (p < e && *p == '}') { ++p; return j; }
                    fail("obj");
                }
            }
            if (c == '[') {
                ++p; Json j = Json::array(); ws();
                if (p < e && *p == ']') { ++p; return j; }
                for (;;) {
                    j.a.push_back(val()); ws();
                    if (p < e && *p == ',') { ++p; continue; }
                    if (p < e && *p == ']') { ++p; return j; }
                    fail("arr");
                }
            }
            if (c == '"') return Json(strv());
            if (c == 't' && e - p >= 4) { p += 4; return Json(true); }
            if (c == 'f' && e - p >= 5) { p += 5; return Json(false); }
            if (c == 'n' && e - p >= 4) { p += 4; return Json(); }
            // number
            const char *st = p; bool isd = false;
            if (*p == '-') ++p;
            while (p < e && ((*p >= '0' && *p <= '9') || *p == '.' || *p == 'e' || *p == 'E' || *p == '+' || *p == '-')) {
                if (*p == '.' || *p == 'e' || *p == 'E') isd = true;
                ++p;
            }
            if (p == st) fail("value");
            std::string t(st, p);
            if (isd) return Json(strtod(t.c_str(), nullptr));
            Json j; j.kind = Int;
            if (t[0] == '-') { j.neg = true; j.u = strtoull(t.c_str() + 1, nullptr, 10); }
            else j.u = strtoull(t.c_str(), nullptr, 10);
            return j;
        }
        std::string strv() {
            std::string r; ++p;
            while (p < e && *p != '"') {
                if (*p == '\\' && p + 1 < e) {
                    ++p;
                    switch (*p) {
                    case 'n': r.push_back('\n'); break;
                    case 't': r.push_back('\t'); break;
                    case 'r': r.push_back('\r'); break;
                    case 'u': { unsigned v = 0; if (e - p >= 5) { v = (unsigned) strtoul(std::string(p + 1, p + 5).c_str(), nullptr, 16); p += 4; } r.push_back((char) v); break; }
                    default: r.push_back(*p);
                    }
                    ++p;
                } else r.push_back(*p++);
            }
            if (p >= e) fail("string");
            ++p;
            return r;
        }
    };
    static Json parse(const std::string &txt) {
        P ps{txt.data(), txt.data() + txt.size()};
        return ps.val();
    }
};

} // namespace sim
