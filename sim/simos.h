/* simos: the link-time environment layer.
 *
 * Every libc/system entry point libsodium uses (see DESIGN.md section 2) is redirected by
 * `-Wl,--wrap=sym` to __wrap_sym here.  A wrapper forwards to the real function unless the
 * calling thread is inside a library call made by an engine (simos_enter/simos_leave) AND the
 * engine installed a hook for that symbol.  So harness / libstdc++ / sanitizer-runtime calls
 * are never failed, counted or rescheduled.
 */
#ifndef SIMOS_H
#define SIMOS_H

#include <stddef.h>
#include <stdint.h>
#include <sys/types.h>
#include <sys/stat.h>
#include <sys/time.h>
#include <poll.h>
#include <pthread.h>
#include <time.h>

#ifdef __cplusplus
extern "C" {
#endif

struct simos_hooks {
    void *(*malloc_)(size_t);
    void *(*calloc_)(size_t, size_t);
    void *(*realloc_)(void *, size_t);
    void (*free_)(void *);
    int (*posix_memalign_)(void **, size_t, size_t);
    void *(*mmap_)(void *, size_t, int, int, int, off_t);
    int (*munmap_)(void *, size_t);
    int (*mprotect_)(void *, size_t, int);
    int (*mlock_)(const void *, size_t);
    int (*munlock_)(const void *, size_t);
    int (*madvise_)(void *, size_t, int);
    long (*sysconf_)(int);
    int (*raise_)(int);
    void (*abort_)(void);              /* may longjmp; if it returns the real abort runs */
    void (*assert_fail_)(const char *expr, const char *file, unsigned line, const char *fn);
    ssize_t (*getrandom_)(void *, size_t, unsigned);
    int (*getentropy_)(void *, size_t);
    int (*open_)(const char *, int, mode_t);
    ssize_t (*read_)(int, void *, size_t);
    int (*close_)(int);
    int (*fstat_)(int, struct stat *);
    int (*fcntl_)(int, int, long);
    int (*poll_)(struct pollfd *, nfds_t, int);
    int (*gettimeofday_)(struct timeval *, void *);
    pid_t (*getpid_)(void);
    int (*mutex_lock_)(pthread_mutex_t *);
    int (*mutex_trylock_)(pthread_mutex_t *);
    int (*mutex_unlock_)(pthread_mutex_t *);
    int (*mutex_timedlock_)(pthread_mutex_t *, const struct timespec *);
    /* process-wide kernel state: what = 0 rlimit, 1 signal disposition, 2 umask; arg = resource / signal number */
    void (*process_state_)(int what, int arg, int is_write);
    void (*sigmask_)(const void *set, void *oldset, size_t n); /* pthread_sigmask/sigprocmask: the kernel reads *set and writes *oldset (n bytes each) */
    int (*getrlimit_)(int, void *);          /* struct rlimit *; if set, replaces the real call */
    int (*setrlimit_)(int, const void *);
    int (*nanosleep_)(const struct timespec *, struct timespec *);
    /* other ambient sources of nondeterminism the tree does not use today; wrapped so that a
     * change which starts using one is under the simulator's control (C18 side-channel check) */
    time_t (*time_)(time_t *);
    int (*clock_gettime_)(clockid_t, struct timespec *);
    uint32_t (*arc4random_)(void);
    void (*arc4random_buf_)(void *, size_t);
    int (*rand_)(void);
    long (*random_)(void);
};

extern struct simos_hooks simos_hooks;

/* depth counter, thread-local */
void simos_enter(void);
void simos_leave(void);
int simos_active(void);
/* temporarily suspend (hooks calling back into libc allocation etc.) */
int simos_suspend(void);          /* returns old depth, sets 0 */
void simos_resume(int old_depth);
void simos_reset_thread(void);    /* depth = 0 (after a longjmp out of a library call) */

/* the real functions, for hooks that want to forward */
void *simos_real_malloc(size_t);
void *simos_real_calloc(size_t, size_t);
void *simos_real_realloc(void *, size_t);
void simos_real_free(void *);
int simos_real_posix_memalign(void **, size_t, size_t);
void *simos_real_mmap(void *, size_t, int, int, int, off_t);
int simos_real_munmap(void *, size_t);
int simos_real_mprotect(void *, size_t, int);
int simos_real_mlock(const void *, size_t);
int simos_real_munlock(const void *, size_t);
int simos_real_madvise(void *, size_t, int);
long simos_real_sysconf(int);
int simos_real_raise(int);
void simos_real_abort(void) __attribute__((noreturn));
int simos_real_mutex_lock(pthread_mutex_t *);
int simos_real_mutex_trylock(pthread_mutex_t *);
int simos_real_mutex_unlock(pthread_mutex_t *);
ssize_t simos_real_getrandom(void *, size_t, unsigned);
int simos_real_getentropy(void *, size_t);
pid_t simos_real_getpid(void);
int simos_real_gettimeofday(struct timeval *, void *);

#ifdef __cplusplus
}
#endif

#endif
