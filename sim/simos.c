/* simos.c: __wrap_* dispatchers (see simos.h). */
#define _GNU_SOURCE
#include "simos.h"

#include <errno.h>
#include <fcntl.h>
#include <signal.h>
#include <stdarg.h>
#include <stdlib.h>
#include <string.h>
#include <sys/mman.h>
#include <sys/random.h>
#include <unistd.h>

struct simos_hooks simos_hooks;

static __thread int simos_depth;

void simos_enter(void) { simos_depth++; }
void simos_leave(void) { if (simos_depth > 0) simos_depth--; }
int simos_active(void) { return simos_depth > 0; }
int simos_suspend(void) { int d = simos_depth; simos_depth = 0; return d; }
void simos_resume(int d) { simos_depth = d; }
void simos_reset_thread(void) { simos_depth = 0; }

#define HOOKED(name) (simos_depth > 0 && simos_hooks.name != NULL)

/* ---- allocation ---- */
void *__real_malloc(size_t);
void *__real_calloc(size_t, size_t);
void *__real_realloc(void *, size_t);
void __real_free(void *);
int __real_posix_memalign(void **, size_t, size_t);

void *__wrap_malloc(size_t n) { return HOOKED(malloc_) ? simos_hooks.malloc_(n) : __real_malloc(n); }
void *__wrap_calloc(size_t a, size_t b) { return HOOKED(calloc_) ? simos_hooks.calloc_(a, b) : __real_calloc(a, b); }
void *__wrap_realloc(void *p, size_t n) { return HOOKED(realloc_) ? simos_hooks.realloc_(p, n) : __real_realloc(p, n); }
void __wrap_free(void *p) { if (HOOKED(free_)) simos_hooks.free_(p); else __real_free(p); }
int __wrap_posix_memalign(void **p, size_t al, size_t n) {
    return HOOKED(posix_memalign_) ? simos_hooks.posix_memalign_(p, al, n) : __real_posix_memalign(p, al, n);
}
void *simos_real_malloc(size_t n) { return __real_malloc(n); }
void *simos_real_calloc(size_t a, size_t b) { return __real_calloc(a, b); }
void *simos_real_realloc(void *p, size_t n) { return __real_realloc(p, n); }
void simos_real_free(void *p) { __real_free(p); }
int simos_real_posix_memalign(void **p, size_t al, size_t n) { return __real_posix_memalign(p, al, n); }

/* ---- mappings ---- */
void *__real_mmap(void *, size_t, int, int, int, off_t);
int __real_munmap(void *, size_t);
int __real_mprotect(void *, size_t, int);
int __real_mlock(const void *, size_t);
int __real_munlock(const void *, size_t);
int __real_madvise(void *, size_t, int);
long __real_sysconf(int);

void *__wrap_mmap(void *a, size_t l, int p, int f, int fd, off_t o) {
    return HOOKED(mmap_) ? simos_hooks.mmap_(a, l, p, f, fd, o) : __real_mmap(a, l, p, f, fd, o);
}
int __wrap_munmap(void *a, size_t l) { return HOOKED(munmap_) ? simos_hooks.munmap_(a, l) : __real_munmap(a, l); }
int __wrap_mprotect(void *a, size_t l, int p) { return HOOKED(mprotect_) ? simos_hooks.mprotect_(a, l, p) : __real_mprotect(a, l, p); }
int __wrap_mlock(const void *a, size_t l) { return HOOKED(mlock_) ? simos_hooks.mlock_(a, l) : __real_mlock(a, l); }
int __wrap_munlock(const void *a, size_t l) { return HOOKED(munlock_) ? simos_hooks.munlock_(a, l) : __real_munlock(a, l); }
int __wrap_madvise(void *a, size_t l, int adv) { return HOOKED(madvise_) ? simos_hooks.madvise_(a, l, adv) : __real_madvise(a, l, adv); }
long __wrap_sysconf(int n) { return HOOKED(sysconf_) ? simos_hooks.sysconf_(n) : __real_sysconf(n); }
void *simos_real_mmap(void *a, size_t l, int p, int f, int fd, off_t o) { return __real_mmap(a, l, p, f, fd, o); }
int simos_real_munmap(void *a, size_t l) { return __real_munmap(a, l); }
int simos_real_mprotect(void *a, size_t l, int p) { return __real_mprotect(a, l, p); }
int simos_real_mlock(const void *a, size_t l) { return __real_mlock(a, l); }
int simos_real_munlock(const void *a, size_t l) { return __real_munlock(a, l); }
int simos_real_madvise(void *a, size_t l, int adv) { return __real_madvise(a, l, adv); }
long simos_real_sysconf(int n) { return __real_sysconf(n); }

/* ---- termination ---- */
int __real_raise(int);
void __real_abort(void) __attribute__((noreturn));
void __real___assert_fail(const char *, const char *, unsigned, const char *) __attribute__((noreturn));

int __wrap_raise(int sig) { return HOOKED(raise_) ? simos_hooks.raise_(sig) : __real_raise(sig); }
void __wrap_abort(void) {
    if (HOOKED(abort_)) simos_hooks.abort_();
    __real_abort();
}
void __wrap___assert_fail(const char *e, const char *f, unsigned l, const char *fn) {
    if (HOOKED(assert_fail_)) simos_hooks.assert_fail_(e, f, l, fn);
    __real___assert_fail(e, f, l, fn);
}
int simos_real_raise(int s) { return __real_raise(s); }
void simos_real_abort(void) { __real_abort(); }

/* ---- entropy / files / time ---- */
ssize_t __real_getrandom(void *, size_t, unsigned);
int __real_getentropy(void *, size_t);
int __real_open(const char *, int, ...);
ssize_t __real_read(int, void *, size_t);
int __real_close(int);
int __real_fstat(int, struct stat *);
int __real_fcntl(int, int, ...);
int __real_poll(struct pollfd *, nfds_t, int);
int __real_gettimeofday(struct timeval *, void *);
pid_t __real_getpid(void);
int __real_nanosleep(const struct timespec *, struct timespec *);

ssize_t __wrap_getrandom(void *b, size_t n, unsigned f) { return HOOKED(getrandom_) ? simos_hooks.getrandom_(b, n, f) : __real_getrandom(b, n, f); }
int __wrap_getentropy(void *b, size_t n) { return HOOKED(getentropy_) ? simos_hooks.getentropy_(b, n) : __real_getentropy(b, n); }
int __wrap_open(const char *path, int flags, ...) {
    mode_t mode = 0;
    if (flags & O_CREAT) { va_list ap; va_start(ap, flags); mode = (mode_t) va_arg(ap, int); va_end(ap); }
    return HOOKED(open_) ? simos_hooks.open_(path, flags, mode) : __real_open(path, flags, mode);
}
ssize_t __wrap_read(int fd, void *b, size_t n) { return HOOKED(read_) ? simos_hooks.read_(fd, b, n) : __real_read(fd, b, n); }
int __wrap_close(int fd) { return HOOKED(close_) ? simos_hooks.close_(fd) : __real_close(fd); }
int __wrap_fstat(int fd, struct stat *st) { return HOOKED(fstat_) ? simos_hooks.fstat_(fd, st) : __real_fstat(fd, st); }
int __wrap_fcntl(int fd, int cmd, ...) {
    long arg; va_list ap; va_start(ap, cmd); arg = va_arg(ap, long); va_end(ap);
    return HOOKED(fcntl_) ? simos_hooks.fcntl_(fd, cmd, arg) : __real_fcntl(fd, cmd, arg);
}
int __wrap_poll(struct pollfd *p, nfds_t n, int t) { return HOOKED(poll_) ? simos_hooks.poll_(p, n, t) : __real_poll(p, n, t); }
int __wrap_gettimeofday(struct timeval *tv, void *tz) { return HOOKED(gettimeofday_) ? simos_hooks.gettimeofday_(tv, tz) : __real_gettimeofday(tv, tz); }
pid_t __wrap_getpid(void) { return HOOKED(getpid_) ? simos_hooks.getpid_() : __real_getpid(); }
int __wrap_nanosleep(const struct timespec *a, struct timespec *b) { return HOOKED(nanosleep_) ? simos_hooks.nanosleep_(a, b) : __real_nanosleep(a, b); }
ssize_t simos_real_getrandom(void *b, size_t n, unsigned f) { return __real_getrandom(b, n, f); }
int simos_real_getentropy(void *b, size_t n) { return __real_getentropy(b, n); }
pid_t simos_real_getpid(void) { return __real_getpid(); }
int simos_real_gettimeofday(struct timeval *tv, void *tz) { return __real_gettimeofday(tv, tz); }

/* ---- locks ---- */
int __real_pthread_mutex_lock(pthread_mutex_t *);
int __real_pthread_mutex_trylock(pthread_mutex_t *);
int __real_pthread_mutex_unlock(pthread_mutex_t *);

int __wrap_pthread_mutex_lock(pthread_mutex_t *m) { return HOOKED(mutex_lock_) ? simos_hooks.mutex_lock_(m) : __real_pthread_mutex_lock(m); }
int __wrap_pthread_mutex_trylock(pthread_mutex_t *m) { return HOOKED(mutex_trylock_) ? simos_hooks.mutex_trylock_(m) : __real_pthread_mutex_trylock(m); }
int __wrap_pthread_mutex_unlock(pthread_mutex_t *m) { return HOOKED(mutex_unlock_) ? simos_hooks.mutex_unlock_(m) : __real_pthread_mutex_unlock(m); }
int simos_real_mutex_lock(pthread_mutex_t *m) { return __real_pthread_mutex_lock(m); }
int simos_real_mutex_trylock(pthread_mutex_t *m) { return __real_pthread_mutex_trylock(m); }
int simos_real_mutex_unlock(pthread_mutex_t *m) { return __real_pthread_mutex_unlock(m); }

/* ---- ambient sources not used by the tree today ---- */
time_t __real_time(time_t *);
int __real_clock_gettime(clockid_t, struct timespec *);
uint32_t __real_arc4random(void);
void __real_arc4random_buf(void *, size_t);
int __real_rand(void);
long __real_random(void);

time_t __wrap_time(time_t *t) { return HOOKED(time_) ? simos_hooks.time_(t) : __real_time(t); }
int __wrap_clock_gettime(clockid_t c, struct timespec *ts) { return HOOKED(clock_gettime_) ? simos_hooks.clock_gettime_(c, ts) : __real_clock_gettime(c, ts); }
uint32_t __wrap_arc4random(void) { return HOOKED(arc4random_) ? simos_hooks.arc4random_() : __real_arc4random(); }
void __wrap_arc4random_buf(void *b, size_t n) { if (HOOKED(arc4random_buf_)) simos_hooks.arc4random_buf_(b, n); else __real_arc4random_buf(b, n); }
int __wrap_rand(void) { return HOOKED(rand_) ? simos_hooks.rand_() : __real_rand(); }
long __wrap_random(void) { return HOOKED(random_) ? simos_hooks.random_() : __real_random(); }

int __real_pthread_mutex_timedlock(pthread_mutex_t *, const struct timespec *);
int __wrap_pthread_mutex_timedlock(pthread_mutex_t *m, const struct timespec *ts) { return HOOKED(mutex_timedlock_) ? simos_hooks.mutex_timedlock_(m, ts) : __real_pthread_mutex_timedlock(m, ts); }

/* ---- process-wide kernel state (reported to the engine, then forwarded) ---- */
#include <sys/resource.h>
int __real_getrlimit(int, struct rlimit *);
int __real_setrlimit(int, const struct rlimit *);
int __real_sigaction(int, const struct sigaction *, struct sigaction *);
mode_t __real_umask(mode_t);
int __wrap_getrlimit(int r, struct rlimit *l) {
    if (HOOKED(process_state_)) simos_hooks.process_state_(0, r, 0);
    if (HOOKED(getrlimit_)) return simos_hooks.getrlimit_(r, l);
    return __real_getrlimit(r, l);
}
int __wrap_setrlimit(int r, const struct rlimit *l) {
    if (HOOKED(process_state_)) simos_hooks.process_state_(0, r, 1);
    if (HOOKED(setrlimit_)) return simos_hooks.setrlimit_(r, l);
    return __real_setrlimit(r, l);
}
int __wrap_sigaction(int sig, const struct sigaction *a, struct sigaction *o) { if (HOOKED(process_state_)) simos_hooks.process_state_(1, sig, a != NULL); return __real_sigaction(sig, a, o); }
int __real_pthread_key_create(pthread_key_t *, void (*)(void *));
/* thread-specific-data keys are a small process-wide pool (1024 in glibc): creating one is reported as what = 3 */
int __wrap_pthread_key_create(pthread_key_t *k, void (*d)(void *)) { if (HOOKED(process_state_)) simos_hooks.process_state_(3, 0, 1); return __real_pthread_key_create(k, d); }
int __real_pthread_atfork(void (*)(void), void (*)(void), void (*)(void));
/* fork handlers are appended to a process-wide list and never removed: registering them is reported as what = 4 */
int __wrap_pthread_atfork(void (*a)(void), void (*b)(void), void (*c)(void)) { if (HOOKED(process_state_)) simos_hooks.process_state_(4, 0, 1); return __real_pthread_atfork(a, b, c); }
#include <signal.h>
int __real_pthread_sigmask(int, const sigset_t *, sigset_t *);
int __real_sigprocmask(int, const sigset_t *, sigset_t *);
int __wrap_pthread_sigmask(int how, const sigset_t *set, sigset_t *old) { if (HOOKED(sigmask_)) simos_hooks.sigmask_(set, old, sizeof(sigset_t)); return __real_pthread_sigmask(how, set, old); }
int __wrap_sigprocmask(int how, const sigset_t *set, sigset_t *old) { if (HOOKED(sigmask_)) simos_hooks.sigmask_(set, old, sizeof(sigset_t)); return __real_sigprocmask(how, set, old); }
mode_t __wrap_umask(mode_t m) { if (HOOKED(process_state_)) simos_hooks.process_state_(2, 0, 1); return __real_umask(m); }
