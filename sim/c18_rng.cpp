// C18 engine: the randomness seam (DESIGN.md section 6).
//
// Two source configurations (process-level knob):
//   scripted : a custom randombytes_implementation (uniform = NULL) installed through the repo's own
//              seam before sodium_init; random()/buf() pop from a per-run script and log every request.
//   kernel   : the built-in default source (sysrandom, real code) over a simulated kernel:
//              getrandom() (optionally ENOSYS at start-up, which forces the /dev/urandom path with
//              open/poll/fstat/fcntl/read/close) with injected EINTR / EAGAIN / short reads.
// Every plan (1..20 generating operations sharing one byte stream) is executed three times:
//   base    : stream S, ambient seed a1, output buffers pre-filled with 0xAA
//   replay  : stream S, ambient seed a2, pre-fill 0x55           -> outputs and request log must be equal
//   flipped : S with one bit flipped inside one op's secret range  -> that op's output must differ
// plus exact oracles where the property (or the documentation) fixes the construction:
// randombytes_uniform, randombytes_buf_deterministic, *_keygen.
#define SIM_COMMON_IMPL
#include "common.hpp"
#include "refcrypto.hpp"
#include "runner.hpp"

#include <cerrno>
#include <csetjmp>
#include <sys/mman.h>
#include <fcntl.h>
#include <sys/stat.h>

extern "C" {
extern struct randombytes_implementation randombytes_internal_implementation;
}

using namespace sim;

namespace {

typedef std::vector<unsigned char> Bytes;
struct KeygenDesc { const char *name; void (*fn)(unsigned char *); size_t size; };
#include "keygens.inc"
const size_t NKEYGENS = sizeof KEYGENS / sizeof KEYGENS[0];

// ---------------- ambient sources (must never influence outputs) ----------------
struct Ambient {
    Rng rng;
    uint64_t calls = 0;
    std::map<std::string, uint64_t> by;
    void reset(uint64_t seed) { rng.seed(seed); calls = 0; by.clear(); }
    void hit(const char *n) { calls++; by[n]++; }
} AMB;

extern "C" int sodium_crit_leave(void); // private/mutex.h: used only to drop the library lock after an observed termination
sigjmp_buf g_term_env;
volatile int g_term_armed = 0;
bool g_kernel_mode = false;      // the byte stream is served through getrandom()/read() instead of the vtable
bool g_getrandom_enosys = false; // kernel without getrandom(): forces the /dev/urandom path
bool g_internal = false;         // the opt-in internal generator (ChaCha20-based, keyed from the kernel) is the installed source
bool g_getentropy_enosys = false;
bool g_prehistory_enosys = false; // while the process's earlier history is being played: the kernel has no getrandom()
uint64_t g_tod = 0;
Rng g_kfault;                    // kernel fault decisions (seeded from the plan)
unsigned g_kfault_pct = 0;
std::map<std::string, uint64_t> g_kfaults_fired;
const int FAKE_FD_URANDOM = 1000, FAKE_FD_RANDOM = 1001;
int g_open_fds = 0;
uint64_t g_read_from_non_device = 0;
int g_urandom_state = 0; // 0 present, 1 missing (ENOENT), 2 present but not a character device: the library must fall back to /dev/random
bool g_fd_open[2] = {false, false}; // simulated descriptor table: a closed descriptor is EBADF, as in a real kernel

unsigned char g_child_kernel_salt = 0; // a forked child gets other bytes from the kernel than its parent does
void kernel_serve(void *buf, size_t n) {
    g_src.log.push_back({'k', n, g_src.pos});
    g_src.serve((unsigned char *) buf, n);
    if (g_child_kernel_salt) for (size_t i = 0; i < n; i++) ((unsigned char *) buf)[i] ^= g_child_kernel_salt;
}
ssize_t h_getrandom(void *buf, size_t n, unsigned) {
    if (!g_kernel_mode && g_prehistory_enosys) { errno = ENOSYS; return -1; }
    if (!g_kernel_mode) { AMB.hit("getrandom"); AMB.rng.fill(buf, n); return (ssize_t) n; }
    if (g_getrandom_enosys) { errno = ENOSYS; return -1; }
    if (n > 256) {
        // getrandom(2) promises complete results only up to 256 bytes; a larger request returns what it had when a signal
        // arrived.  Nothing failed: a caller that asks for more has to carry on from the short count
        size_t k = 256 + (size_t) (mix64(g_src.pos, n) % (n - 256));
        g_kfaults_fired["getrandom_large_request_cut_short"]++;
        kernel_serve(buf, k);
        return (ssize_t) k;
    }
    if (g_kfault_pct && g_kfault.below(100) < g_kfault_pct) {
        // rarely a count shorter than requested (a kernel/emulation that interrupts small requests): like a device
        // failure, the acceptable reactions are terminating or a fully covered result
        if (g_term_armed && n > 1 && g_kfault.below(25) == 0) {
            size_t k = 1 + (size_t) g_kfault.below(n - 1);
            g_kfaults_fired["getrandom_short"]++;
            kernel_serve(buf, k);
            return (ssize_t) k;
        }
        bool eintr = g_kfault.chance(1, 2);
        g_kfaults_fired[eintr ? "getrandom_eintr" : "getrandom_eagain"]++;
        errno = eintr ? EINTR : EAGAIN;
        return -1;
    }
    kernel_serve(buf, n);
    return (ssize_t) n;
}
int h_getentropy(void *buf, size_t n) {
    if (g_internal) {
        if (g_getentropy_enosys) { errno = ENOSYS; return -1; }
        // rarely, inside an operation: the system call fails for good (EIO).  The generator cannot be (re)keyed then; the only
        // acceptable reaction is to terminate, never to carry on with the key it had
        if (g_term_armed && g_kfault_pct && g_kfault.below(100) < g_kfault_pct && g_kfault.below(12) == 0) { g_kfaults_fired["getentropy_eio"]++; errno = EIO; return -1; }
        kernel_serve(buf, n);
        return 0;
    }
    AMB.hit("getentropy"); AMB.rng.fill(buf, n); return 0;
}
int h_open(const char *path, int flags, mode_t) {
    bool ur = strcmp(path, "/dev/urandom") == 0, rd = strcmp(path, "/dev/random") == 0;
    if (!ur && !rd) { errno = ENOENT; return -1; }
    if (ur && g_kernel_mode && g_urandom_state == 1) { errno = ENOENT; return -1; }
    if (!g_kernel_mode) AMB.hit("open_dev_random");
    else if (g_kfault_pct && g_kfault.below(100) < g_kfault_pct) { g_kfaults_fired["open_eintr"]++; errno = EINTR; return -1; }
    g_open_fds++;
    (void) flags;
    g_fd_open[ur ? 0 : 1] = true;
    return ur ? FAKE_FD_URANDOM : FAKE_FD_RANDOM;
}
ssize_t h_read(int fd, void *buf, size_t n) {
    if (fd != FAKE_FD_URANDOM && fd != FAKE_FD_RANDOM) { errno = EBADF; return -1; }
    if (!g_fd_open[fd - FAKE_FD_URANDOM]) { g_kfaults_fired["read_on_closed_fd"]++; errno = EBADF; return -1; }
    if (fd == FAKE_FD_URANDOM && g_kernel_mode && g_urandom_state == 2) g_read_from_non_device++; // what sits at /dev/urandom is an ordinary file
    if (!g_kernel_mode) { AMB.hit("read_dev_random"); AMB.rng.fill(buf, n); return (ssize_t) n; }
    if (g_kfault_pct && g_kfault.below(100) < g_kfault_pct) {
        unsigned c = (unsigned) g_kfault.below(4);
        // rarely: the device is at end-of-file / fails hard.  The only acceptable reactions are terminating (the library
        // calls sodium_misuse) or delivering a fully covered result; silently returning a partly filled secret is not
        if (g_term_armed && g_kfault.below(25) == 0) { // only inside an operation, where termination is observed
            bool eof = g_kfault.chance(1, 2);
            g_kfaults_fired[eof ? "read_eof" : "read_eio"]++;
            if (eof) return 0;
            errno = EIO; return -1;
        }
        if (c == 0) { g_kfaults_fired["read_eintr"]++; errno = EINTR; return -1; }
        if (c == 1) { g_kfaults_fired["read_eagain"]++; errno = EAGAIN; return -1; }
        if (n > 1) { // short read: anything from 1 to n-1 bytes
            size_t k = 1 + (size_t) g_kfault.below(n - 1);
            g_kfaults_fired["read_short"]++;
            kernel_serve(buf, k);
            return (ssize_t) k;
        }
    }
    kernel_serve(buf, n);
    return (ssize_t) n;
}
int h_close(int fd) {
    if ((fd == FAKE_FD_URANDOM || fd == FAKE_FD_RANDOM) && g_fd_open[fd - FAKE_FD_URANDOM]) { g_open_fds--; g_fd_open[fd - FAKE_FD_URANDOM] = false; return 0; }
    errno = EBADF; return -1;
}
int h_fstat(int fd, struct stat *st) {
    if ((fd != FAKE_FD_URANDOM && fd != FAKE_FD_RANDOM) || !g_fd_open[fd - FAKE_FD_URANDOM]) { errno = EBADF; return -1; }
    memset(st, 0, sizeof *st);
    st->st_mode = (fd == FAKE_FD_URANDOM && g_kernel_mode && g_urandom_state == 2) ? (S_IFREG | 0644) : (S_IFCHR | 0666);
    return 0;
}
int h_fcntl(int, int, long) { return 0; }
int h_poll(struct pollfd *p, nfds_t n, int) {
    if (g_kernel_mode && g_kfault_pct && g_kfault.below(100) < g_kfault_pct) { g_kfaults_fired["poll_eintr"]++; errno = EINTR; return -1; }
    for (nfds_t i = 0; i < n; i++) p[i].revents = POLLIN;
    return (int) n;
}
int h_gettimeofday(struct timeval *tv, void *) {
    // the internal generator uses the time of day as the nonce of its stream: part of the simulated kernel there
    if (g_internal) { tv->tv_sec = 1700000000; tv->tv_usec = (suseconds_t) (++g_tod); return 0; }
    AMB.hit("gettimeofday"); tv->tv_sec = (time_t) (1700000000 + AMB.rng.below(1000000)); tv->tv_usec = (suseconds_t) AMB.rng.below(1000000); return 0; }
int g_pid_offset = 0; // 1 in a forked child of the simulated process
pid_t h_getpid(void) { if (g_internal) return 4242 + g_pid_offset; AMB.hit("getpid"); return (pid_t) (1000 + AMB.rng.below(30000)); }
time_t h_time(time_t *t) { AMB.hit("time"); time_t v = (time_t) (1700000000 + AMB.rng.below(1000000)); if (t) *t = v; return v; }
int h_clock_gettime(clockid_t, struct timespec *ts) { AMB.hit("clock_gettime"); ts->tv_sec = (time_t) (1700000000 + AMB.rng.below(1000000)); ts->tv_nsec = (long) AMB.rng.below(1000000000); return 0; }
uint32_t h_arc4random(void) { AMB.hit("arc4random"); return AMB.rng.u32(); }
void h_arc4random_buf(void *b, size_t n) { AMB.hit("arc4random_buf"); AMB.rng.fill(b, n); }
int h_rand(void) { AMB.hit("rand"); return (int) AMB.rng.below(RAND_MAX); }
long h_random(void) { AMB.hit("random"); return (long) AMB.rng.below(RAND_MAX); }

// termination (sodium_misuse -> abort) is an observation, not the end of the simulation
void h_abort(void) { if (g_term_armed) siglongjmp(g_term_env, 1); }
int h_raise(int sig) { if (g_term_armed) siglongjmp(g_term_env, 2); return simos_real_raise(sig); }
void h_assert_fail(const char *, const char *, unsigned, const char *) { if (g_term_armed) siglongjmp(g_term_env, 3); }

// ---------------- plan ----------------
enum Kind {
    K_KEYGEN = 0, K_BOX_KEYPAIR, K_BOXX_KEYPAIR, K_KX_KEYPAIR, K_SIGN_KEYPAIR, K_INIT_PUSH, K_SEAL, K_SEALX, K_PWHASH_STR, K_SCRYPT_STR,
    K_POINT_ED, K_POINT_RIS, K_SCALAR_ED, K_SCALAR_RIS, K_UNIFORM, K_RANDOM, K_BUF, K_DETERMINISTIC, K_STIR, K_CLOSE, K_LEGACY, K_GIANT_LEGACY, K_FORK_DRAW, K_NKINDS
};
const char *kind_name[K_NKINDS] = {"keygen", "box_keypair", "box_xchacha_keypair", "kx_keypair", "sign_keypair", "secretstream_init_push", "box_seal",
                                   "box_xchacha_seal", "pwhash_str", "scrypt_str", "ed25519_random", "ristretto255_random", "ed25519_scalar_random",
                                   "ristretto255_scalar_random", "uniform", "random", "buf", "buf_deterministic", "stir", "close", "randombytes_legacy", "randombytes_legacy_4GiB", "fork_then_draw_in_parent_and_child"};

struct Op {
    int kind = K_KEYGEN;
    uint32_t arg = 0;  // keygen index / uniform bound / buf length / pwhash form
    uint32_t arg2 = 0; // message length for seal, deterministic seed selector
    Bytes seg;         // this op's segment of the byte stream
};
struct PlanT {
    Json pk;
    uint64_t content_seed = 0;
    int flip_op = -1;      // index (mod ops) of the op whose secret gets one bit flipped in the third execution
    uint32_t flip_bit = 0; // resolved modulo the op's flippable bits
    unsigned kfault_pct = 0;
    std::vector<Op> ops;
};

static const unsigned char L_BYTES[32] = {0xed, 0xd3, 0xf5, 0x5c, 0x1a, 0x63, 0x12, 0x58, 0xd6, 0x9c, 0xf7, 0xa2, 0xde, 0xf9, 0xde, 0x14,
                                          0, 0, 0, 0, 0, 0, 0, 0, 0, 0, 0, 0, 0, 0, 0, 0x10};
bool scalar_lt_L(const unsigned char s[32]) {
    for (int i = 31; i >= 0; i--) { if (s[i] < L_BYTES[i]) return true; if (s[i] > L_BYTES[i]) return false; }
    return false;
}
bool all_zero(const unsigned char *p, size_t n) { unsigned char a = 0; for (size_t i = 0; i < n; i++) a |= p[i]; return a == 0; }

struct OpOut {
    Bytes out;                 // everything the API returned, concatenated
    long rc = 0;
    size_t start = 0, end = 0; // range of the stream consumed by this op
    size_t req_first = 0, req_last = 0; // range in the request log
    uint64_t ambient_calls = 0;
    std::string invalid;       // per-execution validity failure (class|locus|detail)
    int terminated = 0;        // 1 abort (sodium_misuse), 2 raise, 3 failed assert
    uint64_t entropy_refused = 0; // getentropy() failures injected into this op (internal generator)
};

struct SeqResult { std::vector<OpOut> ops; std::vector<RngRequest> log; std::map<std::string, uint64_t> ambient; bool exhausted = false; };

struct Exec {
    const PlanT &plan;
    Result res;
    Digest dg;
    bool kernel, internal;
    explicit Exec(const PlanT &p) : plan(p), kernel(p.pk.at("source").str() != "scripted"), internal(p.pk.at("source").str().compare(0, 8, "internal") == 0) {}

    size_t secret_len(const Op &op) {
        switch (op.kind) {
        case K_KEYGEN: return KEYGENS[op.arg % NKEYGENS].size;
        case K_BOX_KEYPAIR: case K_BOXX_KEYPAIR: case K_KX_KEYPAIR: case K_SIGN_KEYPAIR: case K_SEAL: case K_SEALX: case K_POINT_ED:
        case K_SCALAR_ED: case K_SCALAR_RIS: case K_SCRYPT_STR: return 32;
        case K_INIT_PUSH: return 24;
        case K_PWHASH_STR: return 16;
        case K_POINT_RIS: return 64;
        case K_BUF: case K_LEGACY: return op.arg;
        default: return 0;
        }
    }
    // is (byte, bit) of the secret guaranteed to influence the output?
    bool flippable(const Op &op, size_t byte, unsigned bit) {
        switch (op.kind) {
        case K_SEAL: case K_SEALX: return byte >= 1 && byte <= 30;              // clamped X25519 scalar, only the public key is visible
        case K_SCALAR_ED: case K_SCALAR_RIS: return !(byte == 31 && bit >= 5);  // top three bits are masked off
        case K_POINT_RIS: return !((byte == 31 || byte == 63) && bit == 7);     // field elements ignore their top bit
        default: return true;
        }
    }

    // fork(): parent and child both draw 32 bytes without stirring.  With the internal generator the child must not hand
    // out what the parent hands out (it notices the new pid: on the current tree it refuses to continue)
    void fork_draw(OpOut &o, unsigned char prefill) {
        int pfd[2];
        if (pipe(pfd) != 0) return;
        fflush(stdout); fflush(stderr);
        pid_t pid = fork();
        if (pid == 0) {
            close(pfd[0]);
            g_child_kernel_salt = 0x5a;
            g_term_armed = 0; g_pid_offset = 1; // in the child a sodium_misuse() really ends the process
            signal(SIGABRT, SIG_DFL);
            // the application survives the library's refusal (a misuse handler that unwinds) and simply tries again
            unsigned char b[32];
            for (int attempt = 0; attempt < 3; attempt++) {
                memset(b, prefill, sizeof b);
                if (sigsetjmp(g_term_env, 1) == 0) {
                    g_term_armed = 1;
                    { LibScope l; randombytes_buf(b, sizeof b); }
                    g_term_armed = 0;
                    if (write(pfd[1], b, sizeof b) != (ssize_t) sizeof b) _exit(9);
                    _exit(0);
                }
                g_term_armed = 0; simos_reset_thread(); (void) sodium_crit_leave();
            }
            _exit(7); // refused every time
        }
        close(pfd[1]);
        o.out.assign(64, prefill);
        { LibScope l; randombytes_buf(o.out.data(), 32); randombytes_buf(o.out.data() + 32, 32); }
        unsigned char cb[32]; ssize_t got = read(pfd[0], cb, sizeof cb);
        close(pfd[0]);
        int st = 0; waitpid(pid, &st, 0);
        res.count(WIFEXITED(st) && WEXITSTATUS(st) == 0 ? "probe.fork_child_drew" : "probe.fork_child_refused_to_continue");
        if (WIFEXITED(st) && WEXITSTATUS(st) == 0 && got == 32 && (memcmp(cb, o.out.data(), 32) == 0 || memcmp(cb, o.out.data() + 32, 32) == 0))
            o.invalid = "generator-output-repeats|fork|after fork() the child drew the same 32 bytes from the generator as the parent";
    }

    void run_op(const Op &op, OpOut &o, unsigned char prefill) {
        Bytes &out = o.out;
        if (op.kind == K_FORK_DRAW) { fork_draw(o, prefill); return; }
        LibScope l;
        switch (op.kind) {
        case K_KEYGEN: {
            const KeygenDesc &k = KEYGENS[op.arg % NKEYGENS];
            out.assign(k.size, prefill);
            k.fn(out.data());
            break;
        }
        case K_BOX_KEYPAIR: case K_BOXX_KEYPAIR: case K_KX_KEYPAIR: {
            out.assign(64, prefill);
            unsigned char *pk = out.data(), *sk = out.data() + 32;
            o.rc = op.kind == K_BOX_KEYPAIR ? crypto_box_keypair(pk, sk) : op.kind == K_BOXX_KEYPAIR ? crypto_box_curve25519xchacha20poly1305_keypair(pk, sk) : crypto_kx_keypair(pk, sk);
            unsigned char chk[32];
            if (o.rc != 0) o.invalid = "generator-failed|" + std::string(kind_name[op.kind]) + "|returned non-zero";
            else if (crypto_scalarmult_base(chk, sk) != 0 || memcmp(chk, pk, 32) != 0) o.invalid = "keypair-mismatch|" + std::string(kind_name[op.kind]) + "|public key is not scalarmult_base(secret key)";
            break;
        }
        case K_SIGN_KEYPAIR: {
            out.assign(96, prefill);
            unsigned char *pk = out.data(), *sk = out.data() + 32;
            o.rc = crypto_sign_keypair(pk, sk);
            unsigned char pk2[32], sk2[64];
            crypto_sign_seed_keypair(pk2, sk2, sk);
            if (o.rc != 0) o.invalid = "generator-failed|sign_keypair|returned non-zero";
            else if (memcmp(pk2, pk, 32) != 0 || memcmp(sk2, sk, 64) != 0) o.invalid = "keypair-mismatch|sign_keypair|key pair is not the seed-derived pair of its own seed";
            break;
        }
        case K_INIT_PUSH: {
            unsigned char key[32];
            for (int i = 0; i < 32; i++) key[i] = (unsigned char) (i * 7 + 1);
            crypto_secretstream_xchacha20poly1305_state st, st2;
            out.assign(24, prefill);
            o.rc = crypto_secretstream_xchacha20poly1305_init_push(&st, out.data(), key);
            crypto_secretstream_xchacha20poly1305_init_pull(&st2, out.data(), key);
            if (memcmp(st.k, st2.k, 32) != 0 || memcmp(st.nonce, st2.nonce, 12) != 0) o.invalid = "header-mismatch|secretstream_init_push|a puller initialised from the emitted header is not in the sender's state";
            out.insert(out.end(), st.k, st.k + 32);
            out.insert(out.end(), st.nonce, st.nonce + 12);
            break;
        }
        case K_SEAL: case K_SEALX: {
            unsigned char rpk[32], rsk[32], seed[32];
            for (int i = 0; i < 32; i++) seed[i] = (unsigned char) (0x40 + i);
            size_t mlen = op.arg2 % 80;
            Bytes m(mlen), dec(mlen);
            for (size_t i = 0; i < mlen; i++) m[i] = (unsigned char) (i * 3);
            out.assign(mlen + crypto_box_SEALBYTES, prefill);
            int ro;
            if (op.kind == K_SEAL) {
                crypto_box_seed_keypair(rpk, rsk, seed);
                o.rc = crypto_box_seal(out.data(), m.data(), mlen, rpk);
                ro = crypto_box_seal_open(dec.data(), out.data(), out.size(), rpk, rsk);
            } else {
                crypto_box_curve25519xchacha20poly1305_seed_keypair(rpk, rsk, seed);
                o.rc = crypto_box_curve25519xchacha20poly1305_seal(out.data(), m.data(), mlen, rpk);
                ro = crypto_box_curve25519xchacha20poly1305_seal_open(dec.data(), out.data(), out.size(), rpk, rsk);
            }
            if (o.rc != 0 || ro != 0 || dec != m) o.invalid = "seal-roundtrip|" + std::string(kind_name[op.kind]) + "|sealed box does not open to the message";
            break;
        }
        case K_PWHASH_STR: {
            char s[crypto_pwhash_STRBYTES];
            memset(s, prefill, sizeof s);
            const char *pw = "correct horse";
            unsigned form = op.arg % 4;
            if (form == 0) o.rc = crypto_pwhash_str(s, pw, strlen(pw), 1, 8192);
            else if (form == 1) o.rc = crypto_pwhash_str_alg(s, pw, strlen(pw), 3, 8192, crypto_pwhash_ALG_ARGON2I13);
            else if (form == 2) o.rc = crypto_pwhash_argon2id_str(s, pw, strlen(pw), 1, 8192);
            else o.rc = crypto_pwhash_argon2i_str(s, pw, strlen(pw), 3, 8192);
            if (o.rc != 0) { o.invalid = "generator-failed|pwhash_str|returned non-zero"; break; }
            s[crypto_pwhash_STRBYTES - 1] = 0;
            out.assign(s, s + strlen(s));
            if (crypto_pwhash_str_verify(s, pw, strlen(pw)) != 0) o.invalid = "str-does-not-verify|pwhash_str|produced string does not verify";
            break;
        }
        case K_SCRYPT_STR: {
            char s[crypto_pwhash_scryptsalsa208sha256_STRBYTES];
            memset(s, prefill, sizeof s);
            const char *pw = "correct horse";
            o.rc = crypto_pwhash_scryptsalsa208sha256_str(s, pw, strlen(pw), crypto_pwhash_scryptsalsa208sha256_OPSLIMIT_MIN, crypto_pwhash_scryptsalsa208sha256_MEMLIMIT_MIN);
            if (o.rc != 0) { o.invalid = "generator-failed|scrypt_str|returned non-zero"; break; }
            s[sizeof s - 1] = 0;
            out.assign(s, s + strlen(s));
            if (crypto_pwhash_scryptsalsa208sha256_str_verify(s, pw, strlen(pw)) != 0) o.invalid = "str-does-not-verify|scrypt_str|produced string does not verify";
            break;
        }
        case K_POINT_ED:
            out.assign(32, prefill);
            crypto_core_ed25519_random(out.data());
            break;
        case K_POINT_RIS:
            out.assign(32, prefill);
            crypto_core_ristretto255_random(out.data());
            break;
        case K_SCALAR_ED: case K_SCALAR_RIS:
            // the replay execution hands in a buffer that already holds a valid (canonical, non-zero) scalar, as an
            // application reusing its buffer would; the other executions a pattern that is not a scalar
            out.assign(32, prefill == 0x55 ? 0x05 : prefill);
            if (op.kind == K_SCALAR_ED) crypto_core_ed25519_scalar_random(out.data()); else crypto_core_ristretto255_scalar_random(out.data());
            if (!scalar_lt_L(out.data())) o.invalid = "noncanonical-scalar|" + std::string(kind_name[op.kind]) + "|random scalar is not below the group order";
            else if (all_zero(out.data(), 32)) o.invalid = "zero-scalar|" + std::string(kind_name[op.kind]) + "|random scalar is zero";
            break;
        case K_UNIFORM: {
            uint32_t v = randombytes_uniform(op.arg);
            out.resize(4); memcpy(out.data(), &v, 4);
            break;
        }
        case K_RANDOM: {
            // arg + 1 consecutive draws (long runs walk through the refill cycles of a buffering source)
            size_t cnt = (size_t) op.arg + 1;
            out.resize(4 * cnt);
            for (size_t q = 0; q < cnt; q++) { uint32_t v = randombytes_random(); memcpy(out.data() + 4 * q, &v, 4); }
            break;
        }
        case K_BUF:
            out.assign(op.arg, prefill);
            randombytes_buf(out.data(), op.arg);
            break;
        case K_LEGACY:
            out.assign(op.arg, prefill);
            randombytes(out.data(), op.arg);
            break;
        case K_GIANT_LEGACY: {
            // more than 2^32 bytes through the legacy entry point, into a lazily mapped buffer (thorough tier, scripted source)
            unsigned long long len = (1ULL << 32) + 16 + op.arg % 4096;
            unsigned char *big = (unsigned char *) mmap(nullptr, (size_t) len, PROT_READ | PROT_WRITE, MAP_PRIVATE | MAP_ANONYMOUS | MAP_NORESERVE, -1, 0);
            if (big == MAP_FAILED) { res.count("probe.giant_request_skipped"); break; }
            big[len - 1] = prefill; big[0] = prefill;
            size_t before = g_src.pos;
            randombytes(big, len);
            size_t asked = g_src.pos - before;
            out.assign(big, big + 16); out.insert(out.end(), big + len - 16, big + len);
            if (asked < len) o.invalid = "secret-not-covered|randombytes_legacy_4GiB|randombytes() of " + std::to_string(len) + " bytes asked the installed source for only " + std::to_string(asked);
            munmap(big, (size_t) len);
            res.count("probe.giant_request_checked");
            break;
        }
        case K_DETERMINISTIC: {
            unsigned char seed[32];
            Rng r(mix64(plan.content_seed, op.arg2));
            r.fill(seed, 32);
            if (op.arg2 % 7 == 0) memset(seed, op.arg2 % 14 == 0 ? 0 : 0xff, 32);
            out.assign(op.arg, prefill);
            unsigned layout = (op.arg2 >> 8) % 8; // 0..4 disjoint; 5 seed at the head of the output, 6 at its tail, 7 in the middle
            if (layout >= 5 && op.arg >= 32) {
                size_t off = layout == 5 ? 0 : layout == 6 ? op.arg - 32 : (op.arg - 32) / 2;
                memcpy(out.data() + off, seed, 32);
                randombytes_buf_deterministic(out.data(), op.arg, out.data() + off); // in-place ratchet style use
                res.count("probe.deterministic_seed_overlaps_output");
            } else randombytes_buf_deterministic(out.data(), op.arg, seed);
            Bytes expect(op.arg);
            ref::chacha20_ietf_xor(expect.data(), nullptr, op.arg, seed, 0, (const unsigned char *) "LibsodiumDRG");
            if (out != expect) {
                size_t d = 0; while (d < out.size() && out[d] == expect[d]) d++;
                o.invalid = "deterministic-mismatch|buf_deterministic|differs from ChaCha20-IETF('LibsodiumDRG') keystream at offset " + std::to_string(d) + " of " + std::to_string(op.arg);
            }
            break;
        }
        case K_STIR: randombytes_stir(); break;
        case K_CLOSE: o.rc = randombytes_close(); break;
        }
    }

    // one execution of the whole sequence
    SeqResult run_seq(uint64_t ambient_seed, unsigned char prefill, long flip_pos, unsigned flip_bitno) {
        SeqResult sr;
        // normalise process-level source state left behind by an earlier execution (a trailing close):
        // every execution starts from an initialised source, and that start-up consumes nothing of this run's stream
        g_kfault_pct = 0;
        g_src.reset(0x5717);
        { LibScope l; randombytes_stir(); }
        g_src.reset(mix64(plan.content_seed, 0xfa11));
        if (internal) // the first 32 bytes the kernel serves in this run become the generator's key (stir below)
            for (size_t i = 0; i < 32; i++) g_src.script.push_back((unsigned char) mix64(plan.content_seed, 0x1e7 + i));
        for (auto &op : plan.ops) g_src.script.insert(g_src.script.end(), op.seg.begin(), op.seg.end());
        if (flip_pos >= 0) {
            while (g_src.script.size() <= (size_t) flip_pos) g_src.script.push_back(g_src.byte_at(g_src.script.size()));
            g_src.exhausted = false;
            g_src.script[(size_t) flip_pos] ^= (unsigned char) (1u << flip_bitno);
        }
        AMB.reset(ambient_seed);
        g_kfault.seed(mix64(plan.content_seed, 0xfa17));
        g_kfault_pct = kernel ? plan.kfault_pct : 0;
        g_tod = 0;
        if (internal) { LibScope l; randombytes_stir(); }
        for (auto &op : plan.ops) {
            OpOut o;
            o.start = g_src.pos; o.req_first = g_src.log.size();
            uint64_t amb0 = AMB.calls;
            uint64_t eio0 = g_kfaults_fired.count("getentropy_eio") ? g_kfaults_fired["getentropy_eio"] : 0;
            // (the stack the library's frames will occupy is filled like the output buffers: differently in the replay execution)
            if (sigsetjmp(g_term_env, 1) == 0) { g_term_armed = 1; dirty_stack(0x0101010101010101ull * prefill); run_op(op, o, prefill); g_term_armed = 0; }
            else { g_term_armed = 0; simos_reset_thread(); (void) sodium_crit_leave(); o.terminated = 1; o.out.clear(); o.invalid.clear(); } // (sodium_misuse() ends the process holding the library lock)
            o.end = g_src.pos; o.req_last = g_src.log.size();
            o.ambient_calls = AMB.calls - amb0;
            o.entropy_refused = (g_kfaults_fired.count("getentropy_eio") ? g_kfaults_fired["getentropy_eio"] : 0) - eio0;
            sr.ops.push_back(o);
        }
        sr.log = g_src.log;
        sr.ambient = AMB.by;
        sr.exhausted = g_src.exhausted;
        return sr;
    }

    // exact oracle for randombytes_uniform, from the property statement
    void check_uniform(const Op &op, const OpOut &o, const SeqResult &sr, int step) {
        uint32_t n = op.arg, got;
        memcpy(&got, o.out.data(), 4);
        // the draws are the consecutive 32-bit values of the stream range this call consumed (a short read by
        // the simulated kernel may split one draw over several requests, so requests are not used here)
        std::vector<uint32_t> draws;
        (void) sr;
        if ((o.end - o.start) % 4 != 0) { res.fail("uniform-odd-request", "uniform", "randombytes_uniform consumed " + std::to_string(o.end - o.start) + " bytes, not a whole number of 32-bit draws", step); return; }
        for (size_t off = o.start; off < o.end; off += 4) {
            unsigned char b[4];
            for (int k = 0; k < 4; k++) b[k] = g_src.byte_at(off + (size_t) k);
            uint32_t v; memcpy(&v, b, 4);
            draws.push_back(v);
        }
        if (n < 2) {
            if (got != 0) res.fail("uniform-wrong-result", "uniform/n<2", "uniform(" + std::to_string(n) + ") returned " + std::to_string(got), step);
            return;
        }
        uint32_t min = (uint32_t) ((((uint64_t) 1) << 32) % n);
        size_t acc = draws.size();
        for (size_t i = 0; i < draws.size(); i++) if (draws[i] >= min) { acc = i; break; }
        std::string ctx = "n=" + std::to_string(n) + " min=" + std::to_string(min) + " draws=[";
        for (size_t i = 0; i < draws.size() && i < 8; i++) ctx += (i ? "," : "") + std::to_string(draws[i]);
        ctx += "] result=" + std::to_string(got);
        const char *cls = (n & (n - 1)) == 0 ? "uniform/pow2" : "uniform";
        if (got >= n) { res.fail("uniform-out-of-range", cls, ctx, step); return; }
        if (acc == draws.size()) { res.fail("uniform-accepted-rejectable-draw", cls, "no served draw was >= 2^32 mod n, yet a result was returned: " + ctx, step); return; }
        if (draws.size() != acc + 1) { res.fail("uniform-wrong-draw-count", cls, "first acceptable draw is #" + std::to_string(acc) + " but " + std::to_string(draws.size()) + " draws were consumed: " + ctx, step); return; }
        if (got != draws[acc] % n) { res.fail("uniform-wrong-result", cls, "expected " + std::to_string(draws[acc] % n) + ": " + ctx, step); return; }
        if (acc > 0) res.count("probe.uniform_resample", acc);
        res.count("probe.uniform_checked");
    }

    Result run() {
        bool any_adversarial = false;
        uint64_t nondev0 = g_read_from_non_device;
        SeqResult base = run_seq(mix64(plan.content_seed, 1), 0xAA, -1, 0);
        if (g_read_from_non_device != nondev0)
            res.fail("entropy-from-non-device", plan.pk.at("source").str(), "the random source read its entropy from /dev/urandom although that path is not a character device (an ordinary file anyone may have put there); it must fall back to /dev/random", 0);
        for (auto &kv : g_kfaults_fired) res.count("fault." + kv.first, kv.second);
        bool faults_fired = !g_kfaults_fired.empty();
        bool hard_fault_fired = g_kfaults_fired.count("read_eof") || g_kfaults_fired.count("read_eio") || g_kfaults_fired.count("getrandom_short") || g_kfaults_fired.count("getentropy_eio");
        g_kfaults_fired.clear();
        // per-execution validity + exact oracles on the base execution
        for (size_t i = 0; i < plan.ops.size() && !res.violated; i++) {
            const Op &op = plan.ops[i];
            const OpOut &o = base.ops[i];
            res.steps++;
            dg.add((uint64_t) op.kind); dg.add((uint64_t) op.arg); dg.add(o.out.data(), o.out.size()); dg.add((uint64_t) (o.end - o.start)); dg.add((uint64_t) (o.req_last - o.req_first));
            res.count(std::string("probe.op.") + kind_name[op.kind]);
            if (o.entropy_refused && !o.terminated) {
                res.fail("entropy-failure-ignored", std::string(kind_name[op.kind]) + "/internal", std::string(kind_name[op.kind]) + ": getentropy() failed (EIO) while the internal generator was being keyed and the operation carried on regardless (with whatever key it had)", (int) i);
                break;
            }
            if (o.terminated) {
                // legitimate only as the reaction to a hard failure of the entropy device injected into this very op
                res.count("probe.terminated_on_device_failure");
                if (!hard_fault_fired) res.fail("terminated", kind_name[op.kind], std::string(kind_name[op.kind]) + " terminated the process (sodium_misuse/abort) although the entropy source did not fail", (int) i);
                continue;
            }
            if (!o.invalid.empty()) {
                size_t a = o.invalid.find('|'), b = o.invalid.find('|', a + 1);
                res.fail(o.invalid.substr(0, a), o.invalid.substr(a + 1, b - a - 1), o.invalid.substr(b + 1), (int) i);
                break;
            }
            size_t need = secret_len(op);
            if (internal) {
                // the generator is a DRBG keyed from the kernel: operations do not consume kernel bytes themselves.
                // What must hold: results in range, and no two random outputs of one execution are equal (key
                // ratchet / nonce progress) -- checked below over the whole execution.
                if (op.kind == K_UNIFORM) {
                    uint32_t got; memcpy(&got, o.out.data(), 4);
                    if ((op.arg < 2 && got != 0) || (op.arg >= 2 && got >= op.arg)) res.fail("uniform-out-of-range", "uniform/internal", "uniform(" + std::to_string(op.arg) + ") returned " + std::to_string(got), (int) i);
                }
                if (op.kind == K_DETERMINISTIC) res.count("probe.deterministic_checked");
                if (need && o.end < 32)
                    res.fail("generator-not-keyed", "internal", std::string(kind_name[op.kind]) + ": the internal generator produced output although the (simulated) kernel has served it only " + std::to_string(o.end) + " bytes since it was last stirred; its 32-byte key cannot have come from the entropy source", (int) i);
                continue;
            }
            if (need && o.end - o.start < need) {
                res.fail("secret-not-covered", kind_name[op.kind], std::string(kind_name[op.kind]) + " requested " + std::to_string(o.end - o.start) + " bytes from the source for a " + std::to_string(need) + "-byte secret", (int) i);
                break;
            }
            if (op.kind == K_UNIFORM) check_uniform(op, o, base, (int) i);
            if (op.kind == K_DETERMINISTIC) {
                if (o.end != o.start || o.req_last != o.req_first) res.fail("deterministic-used-source", "buf_deterministic", "randombytes_buf_deterministic drew from the installed source", (int) i);
                res.count("probe.deterministic_checked");
            }
            if (op.kind == K_KEYGEN) {
                // documented: equivalent to randombytes_buf(k, KEYBYTES)
                Bytes served(need);
                for (size_t k = 0; k < need; k++) served[k] = g_src.byte_at(o.start + k);
                if (o.out != served) res.fail("keygen-not-source-bytes", KEYGENS[op.arg % NKEYGENS].name, std::string(KEYGENS[op.arg % NKEYGENS].name) + ": key differs from the bytes served by the source", (int) i);
            }
            if ((op.kind == K_SCALAR_ED || op.kind == K_SCALAR_RIS) && o.end - o.start > 32) { res.count("probe.scalar_random_resample", (o.end - o.start) / 32 - 1); any_adversarial = true; }
            if (op.kind == K_UNIFORM && o.end - o.start > 4) any_adversarial = true;
        }
        if (!res.violated && internal) {
            // no output of the generator may repeat within one execution
            std::map<std::string, size_t> seen;
            for (size_t i = 0; i < plan.ops.size() && !res.violated; i++) {
                const Op &op = plan.ops[i];
                const OpOut &o = base.ops[i];
                if (!secret_len(op) || op.kind == K_PWHASH_STR || op.kind == K_SCRYPT_STR || o.out.size() < 16) continue;
                size_t take = op.kind == K_SEAL || op.kind == K_SEALX ? 32 : std::min<size_t>(o.out.size(), 32);
                std::string key((const char *) o.out.data(), take);
                auto it = seen.find(key);
                if (it != seen.end()) res.fail("generator-output-repeats", std::string(kind_name[op.kind]), std::string(kind_name[op.kind]) + " (op " + std::to_string(i) + ") produced the same bytes as op " + std::to_string(it->second) + " of the same execution", (int) i);
                seen[key] = i;
            }
            // 32-bit outputs: two of them being exactly 0 in one execution has probability 2^-64 for a working generator
            size_t zero_words = 0;
            for (size_t i = 0; i < plan.ops.size(); i++)
                if (plan.ops[i].kind == K_RANDOM) for (size_t q = 0; q + 4 <= base.ops[i].out.size(); q += 4) if (all_zero(base.ops[i].out.data() + q, 4)) zero_words++;
            if (!res.violated && zero_words >= 2) res.fail("generator-output-degenerate", "random/internal", std::to_string(zero_words) + " calls of randombytes_random() in one execution returned exactly 0", 0);
            res.count("probe.internal_no_repeat_checked");
        }
        if (!res.violated) {
            // replay: same stream, different ambient values, different pre-fill
            SeqResult rep = run_seq(mix64(plan.content_seed, 2), 0x55, -1, 0);
            g_kfaults_fired.clear();
            for (size_t i = 0; i < plan.ops.size() && !res.violated; i++) {
                const OpOut &a = base.ops[i], &b = rep.ops[i];
                if (a.terminated != b.terminated) { res.fail("not-reproducible", kind_name[plan.ops[i].kind], "termination is not reproducible", (int) i); break; }
                if (a.terminated) continue;
                bool same_reqs = a.start == b.start && a.end == b.end && (a.req_last - a.req_first) == (b.req_last - b.req_first);
                if (a.out != b.out || a.rc != b.rc || !same_reqs) {
                    if (getenv("C18_DEBUG")) fprintf(stderr, "DBG op %zu base[%zu,%zu) reqs %zu out %s | replay[%zu,%zu) reqs %zu out %s\n", i, a.start, a.end, a.req_last - a.req_first, hexbytes(a.out.data(), std::min<size_t>(a.out.size(), 16)).c_str(), b.start, b.end, b.req_last - b.req_first, hexbytes(b.out.data(), std::min<size_t>(b.out.size(), 16)).c_str());
                    const char *cls = (a.ambient_calls || b.ambient_calls) ? "depends-on-ambient-source" : "not-reproducible";
                    std::string det = std::string(kind_name[plan.ops[i].kind]) + ": replaying the same source bytes (other pre-fill, other ambient values) gave " +
                                      (a.out != b.out ? "different output" : !same_reqs ? "a different request pattern" : "a different return code");
                    if (a.ambient_calls || b.ambient_calls) { det += "; ambient calls:"; for (auto &kv : base.ambient) det += " " + kv.first + "x" + std::to_string(kv.second); }
                    res.fail(cls, kind_name[plan.ops[i].kind], det, (int) i);
                }
            }
            for (auto &kv : base.ambient) res.count("probe.ambient." + kv.first, kv.second);
            res.count("probe.replayed_plans");
        }
        if (!res.violated && plan.flip_op >= 0 && !plan.ops.empty()) {
            size_t fi = (size_t) plan.flip_op % plan.ops.size();
            const Op &op = plan.ops[fi];
            size_t need = secret_len(op);
            const OpOut &a = base.ops[fi];
            if (a.terminated) {
                // nothing to compare: the op ended in sodium_misuse() because the entropy device failed
            } else if (internal && need && a.out.size() >= 16) {
                // flip one bit of the generator's key (the first 32 bytes this run's kernel served): every later
                // output must change
                // the key in force for this op = the last 32 bytes the kernel served up to the end of the op (a stir or a
                // close earlier in the sequence, or a re-stir inside the op itself, re-keys the generator)
                size_t key_end = a.end;
                if (key_end < 32) { res.fail("generator-not-keyed", std::string(kind_name[op.kind]) + "/internal", "the internal generator produced output although the kernel has served it only " + std::to_string(key_end) + " bytes in this execution (a key is 32 bytes)", (int) fi); }
                SeqResult fl = res.violated ? base : run_seq(mix64(plan.content_seed, 1), 0xAA, (long) (key_end - 32 + plan.flip_bit % 32), (plan.flip_bit / 32) % 8);
                g_kfaults_fired.clear();
                any_adversarial = true;
                res.count("probe.flip_checked");
                if (!res.violated && fl.ops[fi].out == a.out)
                    res.fail("secret-ignores-source-bytes", std::string(kind_name[op.kind]) + "/internal", std::string(kind_name[op.kind]) + ": flipping a bit of the 32 key bytes the kernel served to the internal generator did not change the result", (int) fi);
            } else if (!internal && need && a.end - a.start >= need) {
                // where the secret's bytes sit in the consumed range: scalars keep the LAST draw (earlier ones were
                // rejected); everything else asks for its secret first (scrypt_str asks for output pre-fill afterwards)
                size_t sec0 = (op.kind == K_SCALAR_ED || op.kind == K_SCALAR_RIS) ? a.end - need : a.start;
                std::vector<std::pair<size_t, unsigned>> cands;
                for (size_t by = 0; by < need; by++) for (unsigned bit = 0; bit < 8; bit++) if (flippable(op, by, bit)) cands.push_back({by, bit});
                auto pick = cands[plan.flip_bit % cands.size()];
                if (op.kind == K_POINT_ED && pick.first == 31 && pick.second == 7 && a.out.size() == 32) {
                    // the top bit only chooses the sign of x; when the served bytes (possibly a neighbour's degenerate
                    // segment, after a stream shift) map to a point with x = 0 it cannot matter: use another bit then
                    bool x_zero = true;
                    for (size_t q = 1; q < 31; q++) if (a.out[q] != (a.out[0] == 0x01 ? 0x00 : 0xff)) x_zero = false;
                    if (!((a.out[0] == 0x01 && a.out[31] == 0x00) || (a.out[0] == 0xec && a.out[31] == 0x7f))) x_zero = false;
                    if (x_zero) { pick = {17, 3}; res.count("probe.flip_avoided_degenerate_sign_bit"); }
                }
                SeqResult fl = run_seq(mix64(plan.content_seed, 1), 0xAA, (long) (sec0 + pick.first), pick.second);
                g_kfaults_fired.clear();
                any_adversarial = true;
                res.count("probe.flip_checked");
                for (size_t i = 0; i < fi && !res.violated; i++)
                    if (fl.ops[i].out != base.ops[i].out) res.fail("not-reproducible", kind_name[plan.ops[i].kind], "an operation before the flipped byte changed its output", (int) i);
                // a flip can turn an accepted draw into a rejected one (scalars): then the op moved on to later
                // stream bytes and nothing can be said about its result; only compare when consumption is unchanged
                bool same_consumption = fl.ops[fi].start == a.start && fl.ops[fi].end == a.end;
                if (getenv("C18_DEBUG")) fprintf(stderr, "DBG flip op %zu sec0 %zu pick (%zu,%u) base[%zu,%zu) out %s | flipped[%zu,%zu) out %s\n", fi, sec0, pick.first, pick.second, a.start, a.end, hexbytes(a.out.data(), std::min<size_t>(a.out.size(), 32)).c_str(), fl.ops[fi].start, fl.ops[fi].end, hexbytes(fl.ops[fi].out.data(), std::min<size_t>(fl.ops[fi].out.size(), 32)).c_str());
                if (!same_consumption) res.count("probe.flip_changed_consumption");
                if (!res.violated && same_consumption && !fl.ops[fi].terminated && fl.ops[fi].out == a.out)
                    res.fail("secret-ignores-source-bytes", kind_name[op.kind], std::string(kind_name[op.kind]) + ": flipping bit " + std::to_string(pick.second) + " of byte " + std::to_string(pick.first) + " of the " + std::to_string(need) + " bytes served for the secret did not change the result", (int) fi);
            }
        }
        res.digest = dg.value();
        res.nontrivial = any_adversarial || faults_fired;
        res.count(std::string("knob.cpu_disable=") + cpu_mask_name((unsigned) plan.pk.at("cpu_disable").u64()));
        res.count("knob.source=" + plan.pk.at("source").str());
        if (plan.pk.at("source").str() == "scripted") res.count("knob.default_source_prehistory=" + std::to_string(plan.pk.at("prehistory").u64()));
        if (plan.pk.at("source").str() == "scripted") res.count("knob.optional_callbacks_absent=" + std::to_string(plan.pk.at("impl_shape").u64()));
        if (plan.pk.at("source").str().find("devurandom") != std::string::npos) res.count("knob.dev_urandom=" + std::string(plan.pk.at("urandom").u64() == 0 ? "present" : plan.pk.at("urandom").u64() == 1 ? "missing" : "not-a-device"));
        return res;
    }
};

struct C18 {
    typedef PlanT Plan;
    static const char *property() { return "C18"; }
    static const char *name() { return "c18_rng"; }
    static const char *level() { return "exploration"; }
    static const char *rule() {
        return "seeded plans of 1-20 generating operations (every *_keygen found in the public headers, box/kx/sign key pairs, secretstream init_push, box_seal (both), "
               "pwhash_str (4 forms), scrypt_str, ed25519/ristretto255 random points and scalars, randombytes_uniform/random/buf/buf_deterministic, stir, close) "
               "sharing one byte stream that is served either by a scripted randombytes_implementation or by a simulated kernel under the built-in default source "
               "(getrandom or /dev/urandom with EINTR/EAGAIN/short reads), or feeds the opt-in internal generator through getentropy or /dev/urandom. uniform draws are placed at 2^32 mod n +-1, scalar draws at L, L+-1, 0, 2^253-1. Each plan is "
               "executed 3x (base / replay with other ambient values and pre-fill / one secret bit flipped). non-trivial = a rejected draw was served, a kernel fault "
               "fired or a flip was checked; distinct = distinct digests of (ops, outputs, request pattern)";
    }
    static size_t batch_size(bool) { return 100; }
    static uint64_t default_runs(bool thorough) { return thorough ? 20000000 : 2000000; }
    static double default_time(bool thorough) { return thorough ? 250 : 12; }
    static void selftest() {
        std::string why;
        if (!ref::selftest(why)) { fprintf(stderr, "reference crypto self-test failed: %s\n", why.c_str()); exit(2); }
    }
    static Json pknobs(uint64_t seed, uint64_t batch, bool) {
        Rng r(mix64(seed, batch), "pknobs");
        Json pk = Json::object();
        pk["cpu_disable"] = cpu_masks()[r.below(cpu_masks().size())];
        unsigned c = (unsigned) r.below(10);
        unsigned c2 = (unsigned) r.below(100);
        (void) c;
        pk["urandom"] = (unsigned) (r.below(3) == 0 ? r.range(1, 2) : 0); // only matters for the *_devurandom sources
        // scripted source: what the process did with the DEFAULT source before the scripted one was installed
        // 0 nothing, 1 used it, 2 used it on a kernel without getrandom(), 3 as 2 and then closed it
        pk["prehistory"] = (unsigned) (r.chance(1, 2) ? 0 : r.range(1, 3));
        pk["impl_shape"] = (unsigned) (r.chance(1, 2) ? 0 : r.range(1, 3)); // scripted source: which optional callbacks (stir, close) the installed implementation leaves NULL
        pk["source"] = c2 < 50 ? "scripted" : c2 < 68 ? "kernel_getrandom" : c2 < 82 ? "kernel_devurandom" : c2 < 92 ? "internal_getentropy" : "internal_devurandom";
        return pk;
    }
    static void proc_setup(const Json &pk) {
        std::string src = pk.at("source").str();
        // RDRAND is mixed into the internal generator's key by design: a hardware entropy source the simulator cannot
        // serve, so it is masked off (the CPU-mask hook) whenever that generator is the installed source
        _sodium_verif_cpu_disable_mask = (unsigned) pk.at("cpu_disable").u64() | (src.compare(0, 8, "internal") == 0 ? NO_RDRAND : 0u);
        g_kernel_mode = src != "scripted";
        g_getrandom_enosys = src == "kernel_devurandom" || src == "internal_devurandom";
        g_internal = src.compare(0, 8, "internal") == 0;
        g_getentropy_enosys = src == "internal_devurandom";
        g_urandom_state = (int) pk.at("urandom").u64();
        simos_hooks.getrandom_ = h_getrandom; simos_hooks.getentropy_ = h_getentropy; simos_hooks.open_ = h_open; simos_hooks.read_ = h_read;
        simos_hooks.close_ = h_close; simos_hooks.fstat_ = h_fstat; simos_hooks.fcntl_ = h_fcntl; simos_hooks.poll_ = h_poll;
        simos_hooks.gettimeofday_ = h_gettimeofday; simos_hooks.getpid_ = h_getpid; simos_hooks.time_ = h_time; simos_hooks.clock_gettime_ = h_clock_gettime;
        simos_hooks.abort_ = h_abort; simos_hooks.raise_ = h_raise; simos_hooks.assert_fail_ = h_assert_fail;
        simos_hooks.arc4random_ = h_arc4random; simos_hooks.arc4random_buf_ = h_arc4random_buf; simos_hooks.rand_ = h_rand; simos_hooks.random_ = h_random;
        g_src.reset(0xb007);
        AMB.reset(7);
        if (!g_kernel_mode && pk.at("prehistory").u64() != 0) {
            unsigned pre = (unsigned) pk.at("prehistory").u64();
            unsigned char t[8];
            g_prehistory_enosys = pre >= 2;
            { LibScope l; randombytes_buf(t, sizeof t); if (pre == 3) (void) randombytes_close(); }
            g_prehistory_enosys = false;
        }
        if (!g_kernel_mode) randombytes_set_implementation(scripted_impl((unsigned) pk.at("impl_shape").u64()));
        if (g_internal) randombytes_set_implementation(&randombytes_internal_implementation);
        LibScope l;
        if (sodium_init() < 0) { fprintf(stderr, "sodium_init failed\n"); _exit(3); }
    }

    static void put32(Bytes &b, uint32_t v) { for (int i = 0; i < 4; i++) b.push_back((unsigned char) (v >> (8 * i))); }

    static void gen_uniform(Op &op, Rng &r) {
        static const uint32_t fixed[] = {0, 1, 2, 3, 5, 6, 7, 10, 100, 255, 256, 257, 1000, 65535, 65536, 65537, 0x7fffffffu, 0x80000000u, 0x80000001u, 0xfffffffeu, 0xffffffffu,
                                         0xaaaaaaabu, 0x55555556u, 0xc0000000u, 0xc0000001u};
        unsigned c = (unsigned) r.below(10);
        uint32_t n;
        if (c < 4) n = fixed[r.below(sizeof fixed / sizeof fixed[0])];
        else if (c < 7) { unsigned k = (unsigned) r.range(1, 31); n = (1u << k) + (uint32_t) r.range(0, 2) - 1; }
        else n = r.u32();
        op.arg = n;
        if (n < 2) { if (r.chance(1, 2)) put32(op.seg, r.u32()); return; }
        uint32_t min = (uint32_t) ((((uint64_t) 1) << 32) % n);
        unsigned rejected = min ? (unsigned) r.below(6) : 0;
        if (min && r.below(40) == 0) rejected = (unsigned) r.pick<unsigned>({31, 32, 63, 64, 65, 127, 128, 255, 256, 300}); // a long unlucky streak is still only a streak
        for (unsigned i = 0; i < rejected; i++) {
            unsigned w = (unsigned) r.below(4);
            put32(op.seg, w == 0 ? min - 1 : w == 1 ? 0 : w == 2 ? min / 2 : (uint32_t) r.below(min));
        }
        unsigned w = (unsigned) r.below(6);
        uint32_t acc = w == 0 ? min : w == 1 ? (min == 0xffffffffu ? min : min + 1) : w == 2 ? 0xffffffffu : w == 3 ? (min ? min : 0) : (uint32_t) r.range(min, 0xffffffffu);
        if (w == 3 && min == 0) acc = (uint32_t) r.below(0x80000000u); // a small draw that any bound with min = 0 must accept
        put32(op.seg, acc);
    }

    static void gen_scalar(Op &op, Rng &r) {
        unsigned rejected = (unsigned) r.below(5);
        if (r.chance(1, 2)) rejected = 0;
        for (unsigned i = 0; i <= rejected; i++) {
            unsigned char s[32];
            bool last = i == rejected;
            if (!last) {
                unsigned w = (unsigned) r.below(5);
                if (w == 0) memcpy(s, L_BYTES, 32);
                else if (w == 1) { memcpy(s, L_BYTES, 32); s[0]++; }
                else if (w == 2) { memset(s, 0xff, 32); }                                   // masks to 2^253-1 >= L
                else if (w == 3) { memset(s, 0, 32); if (r.chance(1, 2)) s[31] = 0xe0; }   // zero (also after masking)
                else { r.fill(s, 32); s[31] = (unsigned char) (0x10 | (s[31] & 0xe0) | 0x0f); s[30] = 0xff; } // random value >= L
            } else {
                unsigned w = (unsigned) r.below(5);
                if (w == 0) { memcpy(s, L_BYTES, 32); s[0]--; }                             // L-1
                else if (w == 1) { memset(s, 0, 32); s[0] = 1; }
                else if (w == 2) { memcpy(s, L_BYTES, 32); s[0]--; s[31] |= 0xe0; }        // L-1 with the masked bits set
                else { r.fill(s, 32); s[31] &= 0x0f; if (w == 4) s[31] |= (unsigned char) (r.below(8) << 5); if (all_zero(s, 32)) s[0] = 1; }
            }
            op.seg.insert(op.seg.end(), s, s + 32);
        }
    }

    static Plan generate(uint64_t seed, uint64_t run, const Json &pk, bool thorough) {
        uint64_t rs = mix64(seed, run);
        Rng r(rs, "ops"), f(rs, "faults");
        Plan p;
        p.pk = pk;
        p.content_seed = mix64(rs, 0xc18);
        bool kernel = pk.at("source").str() != "scripted";
        p.kfault_pct = kernel ? (unsigned) (f.chance(1, 3) ? 0 : f.range(5, 50)) : 0;
        size_t nops = (size_t) r.range(1, thorough ? 20 : 12);

        for (size_t i = 0; i < nops; i++) {
            Op op;
            unsigned c = (unsigned) r.below(1000);
            if (c < 230) op.kind = K_KEYGEN;
            else if (c < 400) op.kind = K_UNIFORM;
            else if (c < 440) op.kind = K_BOX_KEYPAIR;
            else if (c < 470) op.kind = K_BOXX_KEYPAIR;
            else if (c < 500) op.kind = K_KX_KEYPAIR;
            else if (c < 530) op.kind = K_SIGN_KEYPAIR;
            else if (c < 570) op.kind = K_INIT_PUSH;
            else if (c < 600) op.kind = K_SEAL;
            else if (c < 630) op.kind = K_SEALX;
            else if (c < 650) op.kind = K_PWHASH_STR;
            else if (c < 652) op.kind = K_SCRYPT_STR;
            else if (c < 690) op.kind = K_POINT_ED;
            else if (c < 730) op.kind = K_POINT_RIS;
            else if (c < 790) op.kind = K_SCALAR_ED;
            else if (c < 840) op.kind = K_SCALAR_RIS;
            else if (c < 870) op.kind = K_RANDOM;
            else if (c < 900) op.kind = K_BUF;
            else if (c < 910) op.kind = K_LEGACY;
            else if (c < 970) op.kind = K_DETERMINISTIC;
            else if (c < 978) op.kind = K_STIR;
            else if (c < 985) op.kind = pk.at("source").str().compare(0, 8, "internal") == 0 ? K_FORK_DRAW : K_STIR;
            else op.kind = K_CLOSE;
            op.arg2 = r.u32();
            size_t plain = 0;
            switch (op.kind) {
            case K_KEYGEN: op.arg = (uint32_t) r.below(NKEYGENS); plain = KEYGENS[op.arg].size; break;
            case K_UNIFORM: gen_uniform(op, r); break;
            case K_SCALAR_ED: case K_SCALAR_RIS: gen_scalar(op, r); break;
            case K_PWHASH_STR: op.arg = (uint32_t) r.below(4); plain = 16; break;
            case K_BUF: case K_LEGACY: op.arg = (uint32_t) r.pick<uint32_t>({0, 1, 4, 31, 32, 33, 64, 255, 256, 257, 300, 511, 512, 513, 600, 768, 1000, 1025, 4113, 0, 32, 64, 256, 16385}); plain = op.arg; break;
            case K_DETERMINISTIC: op.arg = (uint32_t) (r.chance(1, 3) ? r.pick<uint32_t>({0, 1, 63, 64, 65, 127, 128, 129, 255, 256, 257, 320, 511, 512, 513, 767, 768, 769, 1023, 1024, 1025, 1100}) : r.below(1101)); break;
            case K_RANDOM: op.arg = r.chance(1, 5) ? (uint32_t) r.pick<uint32_t>({112, 119, 120, 127, 240, 300, 500}) : 0; plain = 4 * ((size_t) op.arg + 1); break;
            case K_POINT_RIS: plain = 64; break;
            case K_INIT_PUSH: plain = 24; break;
            case K_STIR: case K_CLOSE: case K_FORK_DRAW: break;
            default: plain = 32; break;
            }
            if (plain) {
                op.seg.resize(plain);
                // degenerate streams (all zero / all ones) for everything except the point generators: the
                // Elligator maps send r = 0 to a 2-torsion point on which the sign bit has no effect, so
                // "every served bit matters" is only true there for non-degenerate field elements
                unsigned w = (op.kind == K_POINT_ED || op.kind == K_POINT_RIS) ? 99 : (unsigned) r.below(16);
                if (w == 0) memset(op.seg.data(), 0, plain);
                else if (w == 1) memset(op.seg.data(), 0xff, plain);
                else r.fill(op.seg.data(), plain);
            }
            p.ops.push_back(op);
        }
        if (thorough && !kernel && run % 100 == 0 && (run % 10000000000ULL) / 100 < 40 && pk.at("source").str() == "scripted") {
            // first run of the first batches of each binary; LAST in the plan, so that no later operation sits 4 GiB into the stream
            Op g; g.kind = K_GIANT_LEGACY; g.arg = r.u32(); p.ops.push_back(g);
        }
        p.flip_op = (int) f.below(nops);
        // prefer an op that has a secret
        for (size_t k = 0; k < nops; k++) {
            size_t idx = ((size_t) p.flip_op + k) % nops;
            int kd = p.ops[idx].kind;
            if (kd != K_UNIFORM && kd != K_RANDOM && kd != K_DETERMINISTIC && kd != K_STIR && kd != K_CLOSE && kd != K_FORK_DRAW && !((kd == K_BUF || kd == K_LEGACY) && p.ops[idx].arg == 0)) { p.flip_op = (int) idx; break; }
        }
        p.flip_bit = f.u32();
        return p;
    }

    static Json to_json(const Plan &p) {
        Json j = Json::object();
        j["knobs"] = p.pk; j["content_seed"] = p.content_seed; j["flip_op"] = p.flip_op; j["flip_bit"] = p.flip_bit; j["kfault_pct"] = p.kfault_pct;
        Json ops = Json::array();
        for (auto &o : p.ops) {
            Json q = Json::object();
            q["op"] = kind_name[o.kind];
            if (o.kind == K_KEYGEN) q["fn"] = KEYGENS[o.arg % NKEYGENS].name;
            q["arg"] = o.arg; q["arg2"] = o.arg2; q["stream"] = hexbytes(o.seg.data(), o.seg.size());
            ops.push(q);
        }
        j["ops"] = ops;
        return j;
    }
    static Plan from_json(const Json &j) {
        Plan p;
        p.pk = j.at("knobs"); p.content_seed = j.at("content_seed").u64(); p.flip_op = (int) j.at("flip_op").i64(-1); p.flip_bit = (uint32_t) j.at("flip_bit").u64();
        p.kfault_pct = (unsigned) j.at("kfault_pct").u64();
        for (auto &q : j.at("ops").a) {
            Op o;
            for (int i = 0; i < K_NKINDS; i++) if (q.at("op").str() == kind_name[i]) o.kind = i;
            o.arg = (uint32_t) q.at("arg").u64(); o.arg2 = (uint32_t) q.at("arg2").u64();
            if (o.kind == K_KEYGEN && q.has("fn")) for (size_t i = 0; i < NKEYGENS; i++) if (q.at("fn").str() == KEYGENS[i].name) o.arg = (uint32_t) i;
            const std::string &h = q.at("stream").str();
            for (size_t i = 0; i + 1 < h.size(); i += 2) o.seg.push_back((unsigned char) strtoul(h.substr(i, 2).c_str(), nullptr, 16));
            p.ops.push_back(o);
        }
        return p;
    }
    static Result execute(const Plan &p) { Exec e(p); return e.run(); }

    static std::vector<Plan> simplify(const Plan &p) {
        std::vector<Plan> out;
        if (p.pk.at("cpu_disable").u64() != 0) { Plan c = p; c.pk["cpu_disable"] = 0u; out.push_back(c); }
        if (p.pk.at("impl_shape").u64() != 0) { Plan c = p; c.pk["impl_shape"] = 0u; out.push_back(c); }
        if (p.pk.at("prehistory").u64() != 0) { Plan c = p; c.pk["prehistory"] = 0u; out.push_back(c); }
        if (p.kfault_pct) { Plan c = p; c.kfault_pct = 0; out.push_back(c); }
        if (p.flip_op >= 0) { Plan c = p; c.flip_op = -1; out.push_back(c); }
        for (size_t i = 0; i < p.ops.size(); i++) {
            const Op &o = p.ops[i];
            if ((o.kind == K_BUF || o.kind == K_LEGACY || o.kind == K_DETERMINISTIC) && o.arg > 64) { Plan c = p; c.ops[i].arg = 64; if (o.kind != K_DETERMINISTIC) c.ops[i].seg.resize(64); out.push_back(c); }
            if (o.kind == K_RANDOM && o.arg) { Plan c = p; c.ops[i].arg = 0; c.ops[i].seg.resize(4); out.push_back(c); }
            if (o.kind == K_UNIFORM && o.seg.size() > 4) { Plan c = p; c.ops[i].seg.erase(c.ops[i].seg.begin(), c.ops[i].seg.begin() + 4); out.push_back(c); }
            if ((o.kind == K_SCALAR_ED || o.kind == K_SCALAR_RIS) && o.seg.size() > 32) { Plan c = p; c.ops[i].seg.erase(c.ops[i].seg.begin(), c.ops[i].seg.begin() + 32); out.push_back(c); }
        }
        return out;
    }

    static void describe(Json &ev) {
        Json comp = Json::object(), real = Json::array(), stub = Json::array();
        real.push("all of libsodium compiled from /repo's working tree: randombytes.c, every generating API, and (kernel configurations) randombytes_sysrandom.c incl. its getrandom and /dev/urandom paths");
        stub.push("scripted randombytes_implementation (scripted configuration)");
        stub.push("simulated kernel entropy interface: getrandom, open/poll/fstat/fcntl/read/close on /dev/(u)random, with EINTR/EAGAIN/short-read injection (kernel configurations)");
        stub.push("ambient sources served from a per-execution PRNG: getentropy, time, clock_gettime, gettimeofday, getpid, arc4random(_buf), rand, random (and getrandom/dev-random in the scripted configuration)");
        stub.push("independent ChaCha20 (RFC 8439 vectors checked at start-up) as the reference for randombytes_buf_deterministic");
        comp["real"] = real; comp["stub"] = stub;
        ev["components"] = comp;
        Json as = Json::array();
        as.push("key pairs, points, sealed boxes and hash strings are checked for self-consistency with the library's own deterministic functions (scalarmult_base, seed_keypair, seal_open, str_verify); those are other properties' subject and trusted here");
        as.push("*_keygen is checked against its documented behaviour (equivalent to randombytes_buf of KEYBYTES); other generators are checked by replay / bit-flip / coverage only, so a refactoring that derives the secret differently from the same source bytes is not flagged");
        as.push("randombytes_buf_deterministic is a pure function: its comparison with the reference keystream is differential testing, reported separately as probe deterministic_checked");
        ev["assumptions"] = as;
        ev["simulated_time_note"] = "no clock is read by the code under test; sim_steps counts generating operations";
    }
};

} // namespace

int main(int argc, char **argv) {
    Runner<C18> r;
    return r.main(argc, argv);
}
