// C09 engine: secretstream over a faulty transport (DESIGN.md section 4).
//
// Nodes: 1-3 sessions, each a real sender (init_push/push/rekey) and a real receiver
// (init_pull/pull/rekey).  Transport: a simulator-owned bag of in-flight chunks with
// drop / duplicate / reorder / truncate / extend / bit-flip / AD faults / cross-delivery /
// replay of old chunks.  Oracle: an independent reference model of the documented
// construction, checked at every step, plus history checks and a heal phase.
#define SIM_COMMON_IMPL
#include "common.hpp"
#include "refcrypto.hpp"
#include "runner.hpp"

#include <sys/mman.h>

using namespace sim;

namespace {

enum OpKind { OP_PUSH = 0, OP_REKEY = 1, OP_DELIVER = 2, OP_GIANT = 3, OP_GIANT_MSG = 4 };
enum Fault {
    F_INTACT = 0, F_DROP, F_DUP, F_DELAY, F_TRUNC, F_EXTEND, F_FLIP_TAGBYTE, F_FLIP_CT, F_FLIP_MAC,
    F_AD_FLIP, F_AD_DROP, F_AD_EXTEND, F_AD_SWAP, F_CROSS, F_REPLAY_OLD, F_MAC_PATTERN, F_NFAULTS
};
const char *fault_name[F_NFAULTS] = {"intact", "drop", "dup", "delay", "truncate", "extend", "flip_tagbyte", "flip_ct", "flip_mac",
                                     "ad_flip", "ad_drop", "ad_extend", "ad_swap", "cross", "replay_old", "mac_structured_change"};

struct Op {
    int kind = OP_PUSH;
    int s = 0;
    // push
    int tag = 0; uint32_t mlen = 0, adlen = 0; bool null_outlen = false, null_ad = false;
    bool craft = false; // the first 16 message bytes are chosen (with knowledge of the key) so that the Poly1305 accumulator ends in [p, 2^130)
    // deliver
    uint32_t pick = 0; int fault = F_INTACT; uint32_t fa = 0, fb = 0; int to = 0; bool consume = true;
    bool null_mlen = false, null_tag = false;
    uint32_t align = 0; // three 4-bit offsets: message, ad, output buffer alignment
};

struct PlanT {
    Json pk;
    uint64_t content_seed = 0;
    int sessions = 1;
    int relation[3] = {0, 0, 0}; // session i vs session 0: 0 independent, 1 same key, 2 same header, 3 twin (both)
    uint32_t header_kind = 0;    // what the random source serves for session 0's header: 0 random, 1 all zero, 2 all 0xff, 3 zero except the last byte
    uint32_t stack_fill = 0;     // stale stack under every library call: 0 as left by the harness, 1 zeros, 2 0xA5 bytes, 3 0xFF bytes
    uint32_t key_in_state = 0;   // bit 0 / bit 1: the key handed to init_push / init_pull lives in the state object being initialised (state->k)
    uint32_t state_align = 0;    // two 4-bit offsets: where the sender's / receiver's state object sits modulo 16
    uint32_t start_counter = 0;  // both ends' chunk counter := this value right after init (0 = leave at 1): simulates a long-lived stream
    std::vector<Op> ops;
};

struct Item {
    bool is_rekey = false;
    unsigned char tag = 0;
    ref::Bytes m, ad, chunk;
};

struct Sess {
    unsigned char key[32], header[24];
    // the two state objects live at a per-plan offset inside 16-byte aligned storage (callers put them anywhere)
    alignas(16) unsigned char push_raw[sizeof(crypto_secretstream_xchacha20poly1305_state) + 16];
    alignas(16) unsigned char pull_raw[sizeof(crypto_secretstream_xchacha20poly1305_state) + 16];
    crypto_secretstream_xchacha20poly1305_state *push_p = nullptr, *pull_p = nullptr;
    crypto_secretstream_xchacha20poly1305_state &ps() { return *push_p; }
    crypto_secretstream_xchacha20poly1305_state &pl() { return *pull_p; }
    ref::StreamState model_push;
    std::vector<ref::StreamState> states; // states[i] = model state before log item i
    std::vector<Item> log;
    size_t accepted = 0;
    std::vector<size_t> inflight;
    int relation = 0;
    bool rejected_since_accept = false;
};

bool real_eq_model(const crypto_secretstream_xchacha20poly1305_state &r, const ref::StreamState &m) {
    static const unsigned char z[8] = {0};
    return memcmp(r.k, m.k, 32) == 0 && memcmp(r.nonce, m.nonce, 12) == 0 && memcmp(r._pad, z, 8) == 0;
}

// exact-size heap copy so that an over-read or over-write by the library is visible to ASan
// (the END of the buffer is exact; `off` bytes of slack in front vary the alignment the library sees)
struct Exact {
    unsigned char *base, *p; size_t n;
    explicit Exact(size_t n_, size_t off = 0) : base((unsigned char *) malloc(n_ + off ? n_ + off : 1)), p(base + off), n(n_) {}
    Exact(const unsigned char *src, size_t n_, size_t off = 0) : base((unsigned char *) malloc(n_ + off ? n_ + off : 1)), p(base + off), n(n_) { if (n_) memcpy(p, src, n_); }
    ~Exact() { free(base); }
    Exact(const Exact &) = delete;
};

// two caller buffers carved out of one exact-size heap block so that they touch (the second starts where the first
// ends): disjoint but adjacent, as two members of one struct or two halves of one I/O buffer would be
struct Adjacent {
    unsigned char *base, *first, *second;
    Adjacent(size_t n1, size_t n2, size_t off) : base((unsigned char *) malloc(n1 + n2 + off ? n1 + n2 + off : 1)), first(base + off), second(base + off + n1) {}
    ~Adjacent() { free(base); }
    Adjacent(const Adjacent &) = delete;
};

struct Exec {
    const PlanT &plan;
    Result res;
    Digest dg;
    std::vector<Sess> ss;
    int step = 0;
    bool any_fault = false;

    explicit Exec(const PlanT &p) : plan(p) {}
    void stale_stack() {
        if (plan.stack_fill == 1) dirty_stack(0); else if (plan.stack_fill == 2) dirty_stack(0xA5A5A5A5A5A5A5A5ull); else if (plan.stack_fill == 3) dirty_stack(~0ull);
    }

    void content(ref::Bytes &out, size_t n, uint64_t salt) {
        out.resize(n);
        Rng r(mix64(plan.content_seed, salt));
        r.fill(out.data(), n);
    }

    void init_sessions() {
        ss.resize((size_t) plan.sessions);
        for (int i = 0; i < plan.sessions; i++) {
            Sess &s = ss[(size_t) i];
            s.push_p = (crypto_secretstream_xchacha20poly1305_state *) (s.push_raw + (plan.state_align & 15));
            s.pull_p = (crypto_secretstream_xchacha20poly1305_state *) (s.pull_raw + ((plan.state_align >> 4) & 15));
            s.relation = i == 0 ? 0 : plan.relation[i];
            ref::Bytes k, h;
            content(k, 32, 0x1000 + (uint64_t) i); content(h, 24, 0x2000 + (uint64_t) i);
            if (i > 0 && (s.relation & 1)) memcpy(k.data(), ss[0].key, 32);
            if (i == 0 && plan.header_kind) { memset(h.data(), plan.header_kind == 2 ? 0xff : 0x00, 24); if (plan.header_kind == 3) h[23] = 1; res.count("probe.degenerate_header"); }
            if (i > 0 && (s.relation & 2)) memcpy(h.data(), ss[0].header, 24);
            memcpy(s.key, k.data(), 32);
            // the header comes out of the library's random source: script it
            g_src.reset(plan.content_seed);
            g_src.script.assign(h.begin(), h.end());
            unsigned char hdr[24];
            // the caller's key sits at any address (a field of a packed record, an offset in a larger buffer)
            alignas(16) unsigned char keybuf[32 + 16];
            memcpy(keybuf + (plan.state_align >> 8 & 15), s.key, 32);
            const unsigned char *kp = keybuf + (plan.state_align >> 8 & 15);
            if (plan.key_in_state & 1) { memcpy(s.ps().k, s.key, 32); kp = s.ps().k; res.count("probe.key_argument_inside_state"); } // a chained session re-keyed from its own state
            { LibScope l; crypto_secretstream_xchacha20poly1305_init_push(&s.ps(), hdr, kp); }
            memcpy(s.header, hdr, 24);
            if (memcmp(hdr, h.data(), 24) != 0) res.fail("header-not-from-source", "init_push", "header differs from the bytes served by the random source", step);
            kp = keybuf + (plan.state_align >> 8 & 15);
            if (plan.key_in_state & 2) { memcpy(s.pl().k, s.key, 32); kp = s.pl().k; }
            { LibScope l; crypto_secretstream_xchacha20poly1305_init_pull(&s.pl(), s.header, kp); }
            ref::stream_init(s.model_push, s.header, s.key);
            if (!real_eq_model(s.ps(), s.model_push)) res.fail("state-desync", "init_push", "state after init_push differs from the documented construction", step);
            if (!real_eq_model(s.pl(), s.model_push)) res.fail("state-desync", "init_pull", "state after init_pull differs from the documented construction", step);
            if (plan.start_counter) {
                uint32_t c = plan.start_counter;
                ref::st32(s.model_push.nonce, c);
                ref::st32(s.ps().nonce, c);
                ref::st32(s.pl().nonce, c);
            }
            s.states.push_back(s.model_push);
            dg.add(s.header, 24);
        }
    }

    // receiver applies pending rekey control records
    void apply_controls(Sess &s) {
        while (s.accepted < s.log.size() && s.log[s.accepted].is_rekey) {
            { LibScope l; crypto_secretstream_xchacha20poly1305_rekey(&s.pl()); }
            s.accepted++;
            if (!real_eq_model(s.pl(), s.states[s.accepted])) res.fail("state-desync", "pull-rekey", "receiver state after explicit rekey differs from model", step);
        }
    }

    const char *context_of(const Sess &s, const ref::StreamState &before) {
        uint32_t c = ref::ld32(before.nonce);
        if (c == 0xffffffffu) return "counter-wrap";
        if (c == 1 && s.log.size() > 0) return "after-rekey";
        return "plain";
    }

    void do_push(const Op &op) {
        Sess &s = ss[(size_t) (op.s % plan.sessions)];
        Item it;
        static const unsigned char tags[5] = {0, 1, 2, 3, 2 | 3};
        it.tag = op.tag >= 256 ? (unsigned char) (op.tag - 256) : tags[op.tag % 5]; // >= 256: an application-defined tag byte ("any tags")
        content(it.m, op.mlen, mix64(0x3000 + (uint64_t) (op.s % plan.sessions), s.log.size()));
        content(it.ad, op.adlen, mix64(0x4000 + (uint64_t) (op.s % plan.sessions), s.log.size()));
        if (op.craft && it.m.size() >= 16) {
            int v = ref::craft_poly_edge(s.model_push, it.m.data(), it.m.size(), it.ad.data(), it.ad.size(), it.tag);
            if (v >= 0) res.count("probe.poly1305_accumulator_in_final_reduction_band");
            else if (v == -2) { res.fail("harness-model", "craft", "crafted message does not produce the intended accumulator", step); return; }
        }
        ref::StreamState before = s.model_push;
        ref::Bytes expect = ref::stream_push(s.model_push, it.m.data(), it.m.size(), it.ad.data(), it.ad.size(), it.tag);
        if (ref::ld32(before.nonce) == 0xffffffffu) res.count("probe.counter_wrap_rekey");
        if (it.tag & 2) res.count("probe.rekey_tag");
        size_t al = op.align; // 0..15: alignment of the caller's buffers
        Exact m(it.m.data(), it.m.size(), al & 15), ad(it.ad.data(), it.ad.size(), (al >> 4) & 15), out(it.m.size() + crypto_secretstream_xchacha20poly1305_ABYTES, (al >> 8) & 15);
        unsigned layout = (unsigned) (al >> 12) & 3; // 2: [message][chunk] touching, 3: [chunk][message] touching
        size_t clen = it.m.size() + crypto_secretstream_xchacha20poly1305_ABYTES;
        Adjacent adj(layout == 2 ? it.m.size() : clen, layout == 2 ? clen : it.m.size(), layout >= 2 ? (al & 15) : 0);
        unsigned char *mp = m.p, *outp = out.p;
        if (layout >= 2) {
            mp = layout == 2 ? adj.first : adj.second; outp = layout == 2 ? adj.second : adj.first;
            if (it.m.size()) memcpy(mp, it.m.data(), it.m.size());
            res.count("probe.adjacent_buffers");
        }
        unsigned long long outlen = 12345;
        int rc;
        stale_stack();
        {
            LibScope l;
            rc = crypto_secretstream_xchacha20poly1305_push(&s.ps(), outp, op.null_outlen ? nullptr : &outlen, (op.null_ad && it.m.empty()) ? nullptr : mp, it.m.size(),
                                                            (op.null_ad && it.ad.empty()) ? nullptr : ad.p, it.ad.size(), it.tag);
        }
        const char *ctx = context_of(s, before);
        if (rc != 0) res.fail("push-failed", ctx, "push returned " + std::to_string(rc), step);
        if (!op.null_outlen && outlen != it.m.size() + 17) res.fail("push-length", ctx, "outlen=" + std::to_string(outlen), step);
        it.chunk.assign(outp, outp + clen);
        if (it.chunk != expect)
            res.fail("chunk-mismatch", ctx, "chunk differs from the documented ChaCha20-Poly1305 construction (mlen=" + std::to_string(op.mlen) + " adlen=" + std::to_string(op.adlen) + " tag=" + std::to_string(it.tag) + ")", step);
        if (!real_eq_model(s.ps(), s.model_push)) res.fail("state-desync", std::string("push/") + ctx, "sender state differs from model after push", step);
        dg.add(it.chunk.data(), it.chunk.size());
        s.log.push_back(it);
        s.states.push_back(s.model_push);
        s.inflight.push_back(s.log.size() - 1);
    }

    // one self-contained push+pull whose associated data is longer than 2^32 bytes (a read-only anonymous mapping:
    // every page is the shared zero page, so it costs time, not memory).  Thorough tier only, once per binary.
    void do_giant(const Op &op) {
        size_t adlen = ((size_t) 1 << 32) + 16 + (op.adlen % 200);
        unsigned char *ad = (unsigned char *) mmap(nullptr, adlen, PROT_READ, MAP_PRIVATE | MAP_ANONYMOUS | MAP_NORESERVE, -1, 0);
        if (ad == MAP_FAILED) { res.count("probe.giant_ad_skipped_no_address_space"); return; }
        unsigned char key[32], hdr[24];
        ref::Bytes k, h, m;
        content(k, 32, 0x9001); content(h, 24, 0x9002); content(m, 1 + op.mlen % 300, 0x9003);
        memcpy(key, k.data(), 32);
        g_src.reset(plan.content_seed);
        g_src.script.assign(h.begin(), h.end());
        crypto_secretstream_xchacha20poly1305_state st_push, st_pull;
        ref::StreamState model;
        { LibScope l; crypto_secretstream_xchacha20poly1305_init_push(&st_push, hdr, key); crypto_secretstream_xchacha20poly1305_init_pull(&st_pull, hdr, key); }
        ref::stream_init(model, hdr, key);
        ref::Bytes expect = ref::stream_push(model, m.data(), m.size(), ad, adlen, 0);
        Exact out(m.size() + 17), dec(m.size());
        int rc, rc2; unsigned char tag = 9; unsigned long long mlen = 0;
        { LibScope l; rc = crypto_secretstream_xchacha20poly1305_push(&st_push, out.p, nullptr, m.data(), m.size(), ad, adlen, 0); }
        if (rc != 0 || memcmp(out.p, expect.data(), expect.size()) != 0) res.fail("chunk-mismatch", "giant-ad", "chunk with " + std::to_string(adlen) + " bytes of associated data differs from the documented construction", step);
        { LibScope l; rc2 = crypto_secretstream_xchacha20poly1305_pull(&st_pull, dec.p, &mlen, &tag, out.p, out.n, ad, adlen); }
        if (!res.violated && (rc2 != 0 || mlen != m.size() || memcmp(dec.p, m.data(), m.size()) != 0)) res.fail("rejected-genuine", "giant-ad", "genuine chunk with " + std::to_string(adlen) + " bytes of associated data rejected or wrongly decrypted", step);
        if (!res.violated && (!real_eq_model(st_push, model) || !real_eq_model(st_pull, model))) res.fail("state-desync", "giant-ad", "states differ from model after a chunk with giant associated data", step);
        munmap(ad, adlen);
        res.count("probe.giant_ad_checked");
        dg.add(out.p, out.n);
    }

    // one self-contained push+pull of a single chunk of more than 2^32 bytes (the documented limit is ~2^38).  The message
    // is a read-only anonymous mapping (zero pages); chunk and decrypted copy are lazily mapped.  Thorough tier, once per
    // binary.  Head and tail of the chunk are compared with the documented construction (keystream blocks 2.. of the
    // chunk's ChaCha20-IETF stream); the authenticator is checked by the round trip.
    static bool machine_has_room_for_giant_chunks() {
        // two of these operations (8 GiB of touched pages each) can run at the same time: only on machines with 32 GiB or more
        // (total memory, a constant of the machine, so that the decision is the same in every re-execution)
        static int cached = -1;
        if (cached < 0) {
            cached = 0;
            FILE *f = fopen("/proc/meminfo", "r");
            if (f) { unsigned long long kb = 0; if (fscanf(f, "MemTotal: %llu kB", &kb) == 1 && kb >= 32ULL * 1024 * 1024) cached = 1; fclose(f); }
        }
        return cached == 1;
    }
    void do_giant_msg(const Op &op) {
        if (!machine_has_room_for_giant_chunks()) { res.count("probe.giant_message_skipped_small_machine"); return; }
        size_t mlen = ((size_t) 1 << 32) + 5 + (op.mlen % 200);
        unsigned char *m = (unsigned char *) mmap(nullptr, mlen, PROT_READ, MAP_PRIVATE | MAP_ANONYMOUS | MAP_NORESERVE, -1, 0);
        unsigned char *c = (unsigned char *) mmap(nullptr, mlen + 17, PROT_READ | PROT_WRITE, MAP_PRIVATE | MAP_ANONYMOUS | MAP_NORESERVE, -1, 0);
        unsigned char *d = (unsigned char *) mmap(nullptr, mlen, PROT_READ | PROT_WRITE, MAP_PRIVATE | MAP_ANONYMOUS | MAP_NORESERVE, -1, 0);
        if (m == MAP_FAILED || c == MAP_FAILED || d == MAP_FAILED) { res.count("probe.giant_message_skipped_no_address_space"); return; }
        unsigned char key[32], hdr[24];
        ref::Bytes k, h;
        content(k, 32, 0x9101); content(h, 24, 0x9102);
        memcpy(key, k.data(), 32);
        g_src.reset(plan.content_seed);
        g_src.script.assign(h.begin(), h.end());
        crypto_secretstream_xchacha20poly1305_state st_push, st_pull;
        ref::StreamState model;
        { LibScope l; crypto_secretstream_xchacha20poly1305_init_push(&st_push, hdr, key); crypto_secretstream_xchacha20poly1305_init_pull(&st_pull, hdr, key); }
        ref::stream_init(model, hdr, key);
        unsigned long long clen = 0, dlen = 0; unsigned char tag = 9; int rc, rc2;
        { LibScope l; rc = crypto_secretstream_xchacha20poly1305_push(&st_push, c, &clen, m, mlen, nullptr, 0, 0); }
        if (rc != 0 || clen != mlen + 17) res.fail("push-failed", "giant-message", "push of a " + std::to_string(mlen) + "-byte message returned " + std::to_string(rc) + ", clen " + std::to_string(clen), step);
        // message is all zero: ciphertext byte i is keystream byte i of the stream starting at block 2
        const size_t W = 4096;
        unsigned char ks[W];
        size_t offs[3] = {0, (((size_t) 1 << 32) - W / 2) & ~(size_t) 63, (mlen - W) & ~(size_t) 63};
        for (size_t q = 0; q < 3 && !res.violated; q++) {
            memset(ks, 0, W);
            ref::chacha20_ietf_xor(ks, ks, W, model.k, (uint32_t) (2 + offs[q] / 64), model.nonce);
            size_t n = std::min(W, mlen - offs[q]);
            if (memcmp(c + 1 + offs[q], ks, n) != 0) res.fail("chunk-mismatch", "giant-message", "ciphertext of a " + std::to_string(mlen) + "-byte message differs from the documented construction around offset " + std::to_string(offs[q]), step);
        }
        { LibScope l; rc2 = crypto_secretstream_xchacha20poly1305_pull(&st_pull, d, &dlen, &tag, c, mlen + 17, nullptr, 0); }
        if (!res.violated && (rc2 != 0 || dlen != mlen || tag != 0)) res.fail("rejected-genuine", "giant-message", "genuine chunk of " + std::to_string(mlen + 17) + " bytes rejected (rc " + std::to_string(rc2) + ")", step);
        for (size_t q = 0; q < 3 && !res.violated; q++) for (size_t i = 0; i < 64; i++) if (d[offs[q] + i] != 0) { res.fail("wrong-plaintext", "giant-message", "decrypted giant message differs", step); break; }
        if (!res.violated && memcmp(st_push.k, st_pull.k, 32) + memcmp(st_push.nonce, st_pull.nonce, 12) != 0) res.fail("state-desync", "giant-message", "states differ after a giant chunk", step);
        dg.add(c, 64); dg.add(c + mlen, 17);
        munmap(m, mlen); munmap(c, mlen + 17); munmap(d, mlen);
        res.count("probe.giant_message_checked");
    }

    void do_rekey(const Op &op) {
        Sess &s = ss[(size_t) (op.s % plan.sessions)];
        { LibScope l; crypto_secretstream_xchacha20poly1305_rekey(&s.ps()); }
        ref::stream_rekey(s.model_push);
        if (!real_eq_model(s.ps(), s.model_push)) res.fail("state-desync", "rekey", "sender state differs from model after explicit rekey", step);
        Item it; it.is_rekey = true;
        s.log.push_back(it);
        s.states.push_back(s.model_push);
        apply_controls(s);
        res.count("probe.explicit_rekey");
        dg.add((uint64_t) 0x7e);
    }

    // one delivery to receiver `dst` of (bytes, ad); idx/src identify the original for genuineness
    void deliver_bytes(Sess &dst, bool same_session, size_t idx, const ref::Bytes &bytes, const ref::Bytes &ad, bool unmodified, const char *fname,
                       const Op &op) {
        bool genuine_next = same_session && unmodified && idx == dst.accepted;
        ref::StreamState mst = dst.states[dst.accepted];
        ref::Bytes mm; unsigned char mtag = 0;
        bool expect_ok = ref::stream_pull(mst, mm, mtag, bytes.data(), bytes.size(), ad.data(), ad.size());
        if (genuine_next && !expect_ok) { res.fail("harness-model", "model-rejects-genuine", "reference model rejects the genuine next chunk", step); return; }
        bool on_clone = expect_ok && !genuine_next; // only possible for twin streams / identical chunks
        if (on_clone) res.count("probe.twin_cross_accept");
        crypto_secretstream_xchacha20poly1305_state clone = dst.pl();
        crypto_secretstream_xchacha20poly1305_state *st = on_clone ? &clone : &dst.pl();
        crypto_secretstream_xchacha20poly1305_state before = *st;
        size_t al = op.align;
        Exact in(bytes.data(), bytes.size(), al & 15), adb(ad.data(), ad.size(), (al >> 4) & 15);
        size_t mcap = bytes.size() >= 17 ? bytes.size() - 17 : 0;
        Exact mout(mcap, (al >> 8) & 15);
        unsigned layout = (unsigned) (al >> 12) & 3; // 2: [plaintext][chunk] touching, 3: [chunk][plaintext] touching
        Adjacent adj(layout == 2 ? mcap : bytes.size(), layout == 2 ? bytes.size() : mcap, layout >= 2 ? (al & 15) : 0);
        unsigned char *inp = in.p, *moutp = mout.p;
        if (layout >= 2) {
            moutp = layout == 2 ? adj.first : adj.second; inp = layout == 2 ? adj.second : adj.first;
            if (bytes.size()) memcpy(inp, bytes.data(), bytes.size());
            res.count("probe.adjacent_buffers");
        }
        unsigned long long mlen = 777; unsigned char tag = 0x55;
        int rc;
        stale_stack();
        {
            LibScope l;
            rc = crypto_secretstream_xchacha20poly1305_pull(st, (op.null_ad && mcap == 0) ? nullptr : moutp, op.null_mlen ? nullptr : &mlen, op.null_tag ? nullptr : &tag, inp, bytes.size(),
                                                            (op.null_ad && ad.empty()) ? nullptr : adb.p, ad.size());
        }
        dg.add((uint64_t) (rc == 0));
        if (rc == 0 && !expect_ok) {
            res.fail("accepted-nongenuine", fname, std::string("pull accepted a chunk that is not the genuine next one (fault=") + fname + ", chunk index " + std::to_string(idx) + ", receiver position " + std::to_string(dst.accepted) + ")", step);
            return;
        }
        if (rc != 0 && expect_ok) {
            res.fail("rejected-genuine", genuine_next ? context_of(dst, dst.states[dst.accepted]) : "twin", "pull rejected a chunk the documented construction accepts (rc=" + std::to_string(rc) + ")", step);
            return;
        }
        if (rc != 0) {
            if (rc != -1) res.fail("bad-return", fname, "pull returned " + std::to_string(rc), step);
            if (memcmp(&before, st, sizeof before) != 0) res.fail("state-changed-on-reject", fname, std::string("a rejected pull modified the state (fault=") + fname + ")", step);
            res.count("probe.rejected");
            if (!on_clone) dst.rejected_since_accept = true;
            return;
        }
        // accepted as expected
        if (!op.null_mlen && mlen != mm.size()) res.fail("wrong-mlen", fname, "mlen=" + std::to_string(mlen), step);
        if (!op.null_tag && tag != mtag) res.fail("wrong-tag", fname, "tag=" + std::to_string(tag) + " expected " + std::to_string(mtag), step);
        if (mm.size() && memcmp(moutp, mm.data(), mm.size()) != 0) res.fail("wrong-plaintext", fname, "decrypted message differs", step);
        if (!real_eq_model(*st, mst)) res.fail("state-desync", "pull", "receiver state differs from model after accepted pull", step);
        if (genuine_next) {
            const Item &it = dst.log[idx];
            if (mm != it.m || mtag != it.tag) res.fail("harness-model", "model-plaintext", "model decrypts to something else than was pushed", step);
            if (dst.rejected_since_accept) res.count("probe.reject_then_accept");
            dst.rejected_since_accept = false;
            dst.accepted++;
            res.count("probe.accepted");
            apply_controls(dst);
        }
    }

    void do_deliver(const Op &op) {
        Sess &src = ss[(size_t) (op.s % plan.sessions)];
        int fault = op.fault % F_NFAULTS;
        size_t idx;
        if (fault == F_REPLAY_OLD) {
            std::vector<size_t> old;
            for (size_t i = 0; i < src.accepted && i < src.log.size(); i++) if (!src.log[i].is_rekey) old.push_back(i);
            if (old.empty()) return;
            idx = old[op.pick % old.size()];
            if (src.states[idx].k[0] != src.states[src.accepted].k[0] || memcmp(src.states[idx].k, src.states[src.accepted].k, 32) != 0) res.count("probe.replay_across_rekey");
        } else {
            if (fault == F_INTACT && op.pick == 0) {
                // the fault-free path of the application protocol: the receiver gets the chunk it is waiting
                // for; if the transport lost it earlier, the sender retransmits it from its log
                if (src.accepted >= src.log.size()) return;
                idx = src.accepted;
                auto it = std::find(src.inflight.begin(), src.inflight.end(), idx);
                if (it != src.inflight.end()) src.inflight.erase(it);
                else res.count("probe.retransmit_after_loss");
            } else {
                if (src.inflight.empty()) return;
                size_t slot = op.pick % src.inflight.size();
                idx = src.inflight[slot];
                bool remove = fault == F_DROP || (fault != F_DUP && fault != F_DELAY && op.consume);
                if (remove) src.inflight.erase(src.inflight.begin() + (long) slot);
            }
        }
        const char *fname = fault_name[fault];
        if (fault != F_INTACT) { any_fault = true; }
        dg.add((uint64_t) fault); dg.add((uint64_t) idx);
        if (fault == F_DROP || fault == F_DELAY) { res.count(std::string("fault.") + fname); return; }
        const Item &it = src.log[idx];
        ref::Bytes bytes = it.chunk, ad = it.ad;
        Sess *dst = &src;
        bool same = true;
        switch (fault) {
        case F_TRUNC: {
            // every L in [0, len); biased (by the generator, through fb) to 0, 1, 16, 17, len-1
            static const size_t edge[4] = {0, 1, 16, 17};
            size_t n = bytes.size(), L;
            unsigned mode = op.fb % 8;
            if (mode < 4) L = edge[mode] < n ? edge[mode] : n - 1;
            else if (mode == 4) L = n - 1;
            else L = op.fa % n;
            bytes.resize(L);
            break;
        }
        case F_EXTEND: { size_t n = 1 + op.fa % 32; for (size_t i = 0; i < n; i++) bytes.push_back((unsigned char) (op.fb + i)); break; }
        case F_FLIP_TAGBYTE: bytes[0] ^= (unsigned char) (1u << (op.fa % 8)); break;
        case F_FLIP_CT: {
            if (bytes.size() > 17) { size_t n = bytes.size() - 17; size_t pos = (op.fb % 3 == 0) ? 0 : (op.fb % 3 == 1) ? n - 1 : op.fa % n; bytes[1 + pos] ^= (unsigned char) (1u << (op.fa % 8)); }
            else bytes[0] ^= 0x80;
            break;
        }
        case F_FLIP_MAC: { size_t pos = bytes.size() - 16 + (op.fa % 16); bytes[pos] ^= (unsigned char) (1u << (op.fb % 8)); break; }
        case F_MAC_PATTERN: {
            // several authenticator bytes changed in a way that cancels out under a comparison that folds its differences
            // (same mask eight / four bytes apart, all bytes, halves swapped, +1/-1 eight bytes apart)
            ref::Bytes before = bytes;
            unsigned char *mac = bytes.data() + bytes.size() - 16;
            unsigned char mask = (unsigned char) (op.fb | 1);
            size_t j = op.fa % 8;
            switch ((op.fa >> 8) % 5) {
            case 0: mac[j] ^= mask; mac[j + 8] ^= mask; break;
            case 1: mac[j % 4 + 4 * ((op.fa >> 4) % 3)] ^= mask; mac[j % 4 + 4 * ((op.fa >> 4) % 3) + 4] ^= mask; break;
            case 2: for (int q = 0; q < 16; q++) mac[q] ^= mask; break;
            case 3: for (int q = 0; q < 8; q++) std::swap(mac[q], mac[q + 8]); break;
            default: mac[j]++; mac[j + 8]--; break;
            }
            if (bytes == before) mac[0] ^= 1;
            break;
        }
        case F_AD_FLIP: if (!ad.empty()) ad[op.fa % ad.size()] ^= (unsigned char) (1u << (op.fb % 8)); else ad.push_back((unsigned char) op.fb); break;
        case F_AD_DROP: ad.clear(); break;
        case F_AD_EXTEND: ad.push_back((unsigned char) op.fa); break;
        case F_AD_SWAP: {
            // AD of a neighbouring chunk of the same stream
            for (size_t d = 1; d < src.log.size(); d++) {
                size_t j = (idx + d) % src.log.size();
                if (!src.log[j].is_rekey) { ad = src.log[j].ad; break; }
            }
            break;
        }
        case F_CROSS: {
            int to = op.to % plan.sessions;
            dst = &ss[(size_t) to];
            same = dst == &src;
            if (!same) {
                res.count(std::string("probe.cross_rel") + std::to_string(dst->relation | src.relation));
            }
            break;
        }
        default: break;
        }
        bool unmodified = bytes == it.chunk && ad == it.ad;
        if (fault == F_INTACT && idx != src.accepted) { fname = idx < src.accepted ? "duplicate" : "skip_ahead"; any_fault = true; }
        if (fault == F_DUP && idx != src.accepted) fname = idx < src.accepted ? "duplicate" : "skip_ahead";
        res.count(std::string("fault.") + fname);
        deliver_bytes(*dst, same, idx, bytes, ad, unmodified, fname, op);
    }

    void heal() {
        // faults have stopped: reliable FIFO retransmission from each receiver's ack point
        Op clean; // default flags
        for (auto &s : ss) {
            size_t outstanding = 0;
            for (size_t i = s.accepted; i < s.log.size(); i++) if (!s.log[i].is_rekey) outstanding++;
            size_t deliveries = 0;
            apply_controls(s);
            while (!res.violated && s.accepted < s.log.size()) {
                size_t idx = s.accepted;
                const Item &it = s.log[idx];
                deliver_bytes(s, true, idx, it.chunk, it.ad, true, "heal", clean);
                deliveries++;
                if (s.accepted == idx) { res.fail("heal-failed", "heal", "after faults stopped the genuine next chunk is still rejected", step); break; }
                if (deliveries > outstanding) { res.fail("heal-failed", "heal-bound", "recovery needed more deliveries than outstanding chunks", step); break; }
            }
            if (res.violated) return;
            if (deliveries != outstanding) res.fail("heal-failed", "heal-count", "delivered " + std::to_string(deliveries) + " of " + std::to_string(outstanding), step);
            if (memcmp(s.ps().k, s.pl().k, 32) != 0 || memcmp(s.ps().nonce, s.pl().nonce, 12) != 0)
                res.fail("state-desync", "final", "sender and receiver states differ after the whole sequence was delivered", step);
            res.count("probe.healed_sessions");
            if (outstanding) res.count("probe.healed_with_backlog");
        }
    }

    Result run() {
        init_sessions();
        for (size_t i = 0; i < plan.ops.size() && !res.violated; i++) {
            step = (int) i;
            const Op &op = plan.ops[i];
            switch (op.kind) {
            case OP_PUSH: do_push(op); break;
            case OP_REKEY: do_rekey(op); break;
            case OP_DELIVER: do_deliver(op); break;
            case OP_GIANT: do_giant(op); break;
            case OP_GIANT_MSG: do_giant_msg(op); break;
            }
            res.steps++;
        }
        step = (int) plan.ops.size();
        if (!res.violated) heal();
        for (auto &s : ss) { dg.add(s.pl().k, 32); dg.add(s.pl().nonce, 12); dg.add((uint64_t) s.accepted); }
        res.digest = dg.value();
        res.nontrivial = any_fault;
        res.count(std::string("knob.cpu_disable=") + cpu_mask_name((unsigned) plan.pk.at("cpu_disable").u64()));
        res.count("knob.sessions=" + std::to_string(plan.sessions));
        {
            uint32_t c = plan.start_counter;
            const char *cls = c == 0 ? "1" : c >= 0xfffffff0u ? "2^32-k" : (c & 0xffffff) >= 0xfffff0 ? "2^24m-k" : (c & 0xffff) >= 0xfff0 ? "2^16m-k" : (c & 0xff) >= 0xf0 ? "2^8m-k" : "random";
            res.count(std::string("knob.start_counter=") + cls);
        }
        return res;
    }
};

struct C09 {
    typedef PlanT Plan;
    static const char *property() { return "C09"; }
    static const char *name() { return "c09_stream"; }
    static const char *level() { return "exploration"; }
    static const char *rule() {
        return "seeded plans of <=60 ops {push(tag,mlen,adlen), rekey, deliver(pick, fault)} over 1-3 sessions (independent / same key / same header / twin) "
               "from chunk counter 1, 2^32-k, m*2^24-k, m*2^16-k, m*2^8-k or random; every delivery checked against an independent reference model of the documented construction, state snapshot "
               "compared after every rejected pull, heal phase with exact delivery bound. non-trivial = at least one transport fault fired (anything but in-order "
               "intact delivery); distinct = distinct event-log digests (ops, fault choices, chunk bytes, accept/reject outcomes, final states)";
    }
    static size_t batch_size(bool) { return 400; }
    static uint64_t default_runs(bool thorough) { return thorough ? 40000000 : 2000000; }
    static double default_time(bool thorough) { return thorough ? 420 : 25; }
    static void selftest() {
        std::string why;
        if (!ref::selftest(why)) { fprintf(stderr, "reference crypto self-test failed: %s\n", why.c_str()); exit(2); }
    }
    static Json pknobs(uint64_t seed, uint64_t batch, bool) {
        Rng r(mix64(seed, batch), "pknobs");
        Json pk = Json::object();
        pk["cpu_disable"] = cpu_masks()[r.below(cpu_masks().size())];
        // the two batches that carry the single >4 GiB chunk (thorough tier): once on the portable back ends, once with everything the CPU has
        if (batch % 100000000ULL == 6) pk["cpu_disable"] = cpu_masks().back();
        if (batch % 100000000ULL == 7) pk["cpu_disable"] = 0u;
        return pk;
    }
    static void proc_setup(const Json &pk) {
        _sodium_verif_cpu_disable_mask = (unsigned) pk.at("cpu_disable").u64();
        randombytes_set_implementation(scripted_impl());
        g_src.reset(1);
        LibScope l;
        if (sodium_init() < 0) { fprintf(stderr, "sodium_init failed\n"); _exit(3); }
    }

    static uint32_t gen_len(Rng &r, bool thorough) {
        static const uint32_t edges[] = {0, 1, 15, 16, 17, 31, 32, 33, 47, 48, 63, 64, 65, 127, 128, 129, 191, 192, 255, 256, 257, 511, 512, 513, 1023, 1024};
        unsigned c = (unsigned) r.below(10);
        // rarely: tens of kilobytes (many iterations of the widest SIMD loops, block counters beyond one byte)
        if (r.below(thorough ? 60 : 150) == 0) return (uint32_t) r.pick<uint32_t>({4097, 8192, 16383, 16384 + 65, 40000, 65536, 65536 + 257, 70001});
        if (c < 6) return edges[r.below(sizeof edges / sizeof edges[0])];
        if (c < 9) return (uint32_t) r.below(300);
        return (uint32_t) r.below(thorough ? 4097 : 1500);
    }

    static Plan generate(uint64_t seed, uint64_t run, const Json &pk, bool thorough) {
        uint64_t rs = mix64(seed, run);
        Rng knobs(rs, "knobs"), ops(rs, "ops"), faults(rs, "faults");
        Plan p;
        p.pk = pk;
        p.content_seed = mix64(rs, 0xc0117e17);
        p.sessions = (int) (knobs.below(10) < 5 ? 1 : knobs.below(10) < 7 ? 2 : 3);
        p.state_align = (uint32_t) knobs.below(4096); // bits 0-3 / 4-7: state objects, bits 8-11: the key argument
        p.key_in_state = knobs.chance(1, 6) ? (uint32_t) knobs.range(1, 3) : 0;
        p.stack_fill = (uint32_t) knobs.below(4);
        p.header_kind = knobs.chance(1, 8) ? (uint32_t) knobs.range(1, 3) : 0;
        for (int i = 1; i < 3; i++) p.relation[i] = (int) knobs.below(4);
        {
            // 1, or shortly before a boundary of the little-endian counter: full wrap (automatic rekey), and
            // partial-width boundaries (a wrap test on the wrong width would fire there)
            unsigned c = (unsigned) knobs.below(12);
            uint32_t k = (uint32_t) knobs.range(1, 6);
            if (c < 5) p.start_counter = 0;
            else if (c < 8) p.start_counter = 0u - k;
            else if (c == 8) p.start_counter = ((uint32_t) knobs.range(1, 255) << 24) - k;
            else if (c == 9) p.start_counter = ((uint32_t) knobs.range(1, 0xffff) << 16) - k;
            else if (c == 10) p.start_counter = ((uint32_t) knobs.range(1, 0xffffff) << 8) - k;
            else p.start_counter = (uint32_t) knobs.next() | 1u;
        }
        // fault rate knob: a third of the runs are fault-free FIFO
        unsigned fr = (unsigned) knobs.below(3) == 0 ? 0 : (unsigned) knobs.range(5, 60); // percent
        size_t nops = (size_t) ops.range(4, thorough ? 60 : 40);
        if (thorough && run % 400 == 0 && (run % 40000000000ULL) / 400 < 6) { // first run of the first six batches of each binary's range (six CPU masks)
            Op g; g.kind = OP_GIANT; g.mlen = (uint32_t) ops.below(300); g.adlen = (uint32_t) ops.below(200);
            p.ops.push_back(g);
        }
        if (thorough && run % 400 == 0 && ((run % 40000000000ULL) / 400 == 6 || (run % 40000000000ULL) / 400 == 7)) { // twice per binary (portable / full CPU): a single chunk of more than 4 GiB
            Op g; g.kind = OP_GIANT_MSG; g.mlen = (uint32_t) ops.below(200);
            p.ops.push_back(g);
        }
        std::vector<int> pushed((size_t) p.sessions, 0);
        for (size_t i = 0; i < nops; i++) {
            Op op;
            unsigned c = (unsigned) ops.below(100);
            op.s = (int) ops.below((uint64_t) p.sessions);
            op.align = ops.chance(1, 2) ? 0 : (uint32_t) ops.below(4 * 4096); // bits 12-13: buffer layout (separate blocks / touching)
            if (c < 42 || pushed[(size_t) op.s] == 0) {
                op.kind = OP_PUSH;
                unsigned t = (unsigned) ops.below(10);
                op.tag = t < 5 ? 0 : t < 6 ? 1 : t < 8 ? 2 : t < 9 ? 3 : 4;
                if (ops.chance(1, 6)) op.tag = 256 + (int) ops.below(256);
                op.mlen = gen_len(ops, thorough);
                op.adlen = ops.chance(1, 2) ? 0 : (uint32_t) ops.pick<uint32_t>({1, 3, 15, 16, 17, 32, 33, 64, 80, 127, 255, 256, 257, 300, 511, 513, 1000, 4099});
                op.null_outlen = ops.chance(1, 5);
                op.craft = ops.chance(1, 8);
                op.null_ad = ops.chance(1, 3);
                pushed[(size_t) op.s]++;
            } else if (c < 47) {
                op.kind = OP_REKEY;
            } else {
                op.kind = OP_DELIVER;
                op.null_mlen = ops.chance(1, 5); op.null_tag = ops.chance(1, 5); op.null_ad = ops.chance(1, 3);
                op.consume = true;
                if (fr && faults.below(100) < fr) {
                    op.fault = (int) faults.range(1, F_NFAULTS - 1);
                    op.pick = (uint32_t) faults.below(8);
                    op.fa = (uint32_t) faults.next();
                    op.fb = (uint32_t) faults.next();
                    op.to = (int) faults.below((uint64_t) p.sessions);
                    op.consume = faults.chance(1, 2);
                } else {
                    op.fault = F_INTACT;
                    op.pick = fr ? (uint32_t) (faults.chance(1, 6) ? faults.below(4) : 0) : 0;
                }
            }
            p.ops.push_back(op);
        }
        return p;
    }

    static Json to_json(const Plan &p) {
        Json j = Json::object();
        j["knobs"] = p.pk;
        j["content_seed"] = p.content_seed; j["sessions"] = p.sessions;
        Json rel = Json::array(); for (int i = 0; i < 3; i++) rel.push(p.relation[i]);
        j["relation"] = rel; j["start_counter"] = p.start_counter; j["state_align"] = p.state_align; j["key_in_state"] = p.key_in_state; j["stale_stack"] = p.stack_fill; j["header_kind"] = p.header_kind;
        Json ops = Json::array();
        for (auto &o : p.ops) {
            Json q = Json::object();
            if (o.kind == OP_PUSH) {
                q["op"] = "push"; q["s"] = o.s; q["tag"] = o.tag; q["mlen"] = o.mlen; q["adlen"] = o.adlen;
                if (o.align) q["align"] = o.align;
                if (o.null_outlen) q["null_outlen"] = true;
                if (o.craft) q["craft_poly1305_edge"] = true;
                if (o.null_ad) q["null_ad"] = true;
            } else if (o.kind == OP_REKEY) { q["op"] = "rekey"; q["s"] = o.s; }
            else if (o.kind == OP_GIANT_MSG) { q["op"] = "giant_message_roundtrip"; q["s"] = 0; q["mlen"] = o.mlen; }
            else if (o.kind == OP_GIANT) { q["op"] = "giant_ad_roundtrip"; q["s"] = 0; q["mlen"] = o.mlen; q["adlen"] = o.adlen; }
            else {
                q["op"] = "deliver"; q["s"] = o.s; q["pick"] = o.pick; q["fault"] = fault_name[o.fault % F_NFAULTS];
                if (o.fault != F_INTACT) { q["fa"] = o.fa; q["fb"] = o.fb; q["to"] = o.to; }
                q["consume"] = o.consume;
                if (o.align) q["align"] = o.align;
                if (o.null_mlen) q["null_mlen"] = true;
                if (o.null_tag) q["null_tag"] = true;
                if (o.null_ad) q["null_ad"] = true;
            }
            ops.push(q);
        }
        j["ops"] = ops;
        return j;
    }
    static Plan from_json(const Json &j) {
        Plan p;
        p.pk = j.at("knobs");
        p.content_seed = j.at("content_seed").u64(); p.sessions = (int) j.at("sessions").i64(1);
        if (p.sessions < 1) p.sessions = 1;
        if (p.sessions > 3) p.sessions = 3;
        for (size_t i = 0; i < 3 && i < j.at("relation").a.size(); i++) p.relation[i] = (int) j.at("relation").a[i].i64();
        p.start_counter = (uint32_t) j.at("start_counter").u64(); p.state_align = (uint32_t) j.at("state_align").u64(); p.key_in_state = (uint32_t) j.at("key_in_state").u64(); p.stack_fill = (uint32_t) j.at("stale_stack").u64(); p.header_kind = (uint32_t) j.at("header_kind").u64();
        for (auto &q : j.at("ops").a) {
            Op o;
            std::string k = q.at("op").str();
            o.s = (int) q.at("s").i64();
            o.align = (uint32_t) q.at("align").u64();
            if (k == "push") {
                o.kind = OP_PUSH; o.tag = (int) q.at("tag").i64(); o.mlen = (uint32_t) q.at("mlen").u64(); o.adlen = (uint32_t) q.at("adlen").u64();
                o.null_outlen = q.at("null_outlen").boolean(); o.null_ad = q.at("null_ad").boolean(); o.craft = q.at("craft_poly1305_edge").boolean();
            } else if (k == "rekey") o.kind = OP_REKEY;
            else if (k == "giant_message_roundtrip") { o.kind = OP_GIANT_MSG; o.mlen = (uint32_t) q.at("mlen").u64(); }
            else if (k == "giant_ad_roundtrip") { o.kind = OP_GIANT; o.mlen = (uint32_t) q.at("mlen").u64(); o.adlen = (uint32_t) q.at("adlen").u64(); }
            else {
                o.kind = OP_DELIVER; o.pick = (uint32_t) q.at("pick").u64();
                std::string f = q.at("fault").str();
                for (int i = 0; i < F_NFAULTS; i++) if (f == fault_name[i]) o.fault = i;
                o.fa = (uint32_t) q.at("fa").u64(); o.fb = (uint32_t) q.at("fb").u64(); o.to = (int) q.at("to").i64();
                o.consume = q.at("consume").boolean(true);
                o.null_mlen = q.at("null_mlen").boolean(); o.null_tag = q.at("null_tag").boolean(); o.null_ad = q.at("null_ad").boolean();
            }
            p.ops.push_back(o);
        }
        return p;
    }

    static Result execute(const Plan &p) {
        Exec e(p);
        return e.run();
    }

    static std::vector<Plan> simplify(const Plan &p) {
        std::vector<Plan> out;
        auto push = [&](const Plan &c) { out.push_back(c); };
        if (p.pk.at("cpu_disable").u64() != 0) { Plan c = p; c.pk["cpu_disable"] = 0u; push(c); }
        if (p.start_counter) { Plan c = p; c.start_counter = 0; push(c); }
        if (p.state_align) { Plan c = p; c.state_align = 0; push(c); }
        if (p.key_in_state) { Plan c = p; c.key_in_state = 0; push(c); }
        if (p.stack_fill) { Plan c = p; c.stack_fill = 0; push(c); }
        if (p.header_kind) { Plan c = p; c.header_kind = 0; push(c); }
        if (p.start_counter && p.start_counter != 0xffffffffu) { Plan c = p; c.start_counter = 0xffffffffu; push(c); }
        if (p.sessions > 1) { Plan c = p; c.sessions--; push(c); }
        for (int i = 1; i < 3; i++) if (p.relation[i]) { Plan c = p; c.relation[i] = 0; push(c); }
        for (size_t i = 0; i < p.ops.size(); i++) {
            const Op &o = p.ops[i];
            if (o.kind == OP_PUSH) {
                if (o.mlen) { Plan c = p; c.ops[i].mlen = 0; push(c); }
                if (o.mlen > 1) { Plan c = p; c.ops[i].mlen = 1; push(c); }
                if (o.mlen > 64) { Plan c = p; c.ops[i].mlen = 64; push(c); }
                if (o.adlen) { Plan c = p; c.ops[i].adlen = 0; push(c); }
                if (o.tag) { Plan c = p; c.ops[i].tag = 0; push(c); }
                if (o.null_outlen || o.null_ad) { Plan c = p; c.ops[i].null_outlen = c.ops[i].null_ad = false; push(c); }
            } else if (o.kind == OP_DELIVER) {
                if (o.pick) { Plan c = p; c.ops[i].pick = 0; push(c); }
                if (o.null_mlen || o.null_tag || o.null_ad) { Plan c = p; c.ops[i].null_mlen = c.ops[i].null_tag = c.ops[i].null_ad = false; push(c); }
                if (o.fault != F_INTACT && (o.fa > 16 || o.fb > 16)) { Plan c = p; c.ops[i].fa %= 16; c.ops[i].fb %= 8; push(c); }
                if (!o.consume) { Plan c = p; c.ops[i].consume = true; push(c); }
            }
            if (o.s) { Plan c = p; c.ops[i].s = 0; push(c); }
            if (o.align) { Plan c = p; c.ops[i].align = 0; push(c); }
        }
        return out;
    }

    static void describe(Json &ev) {
        Json comp = Json::object();
        Json real = Json::array();
        real.push("all of libsodium compiled from /repo's working tree (secretstream, chacha20, hchacha20, poly1305 backends selected by the CPU-mask knob)");
        real.push("glibc");
        Json stub = Json::array();
        stub.push("transport (simulator-owned bag of in-flight chunks)");
        stub.push("random source (scripted randombytes_implementation; serves the stream headers)");
        stub.push("reference secretstream model (independent ChaCha20/HChaCha20/Poly1305, RFC 8439 vectors checked at start-up)");
        comp["real"] = real; comp["stub"] = stub;
        ev["components"] = comp;
        Json as = Json::array();
        as.push("a forged or foreign chunk passes Poly1305 verification with probability 2^-128; treated as never");
        as.push("message sizes mostly <= 4096 bytes with occasional ones up to ~70 KB, <= 60 operations per run; sizes near MESSAGEBYTES_MAX are out of reach (thorough tier: six push/pull round trips per binary, under different CPU masks, with > 2^32 bytes of associated data)");
        as.push("the chunk counter is positioned at 2^32-k by writing the public state struct, exactly as the property's quantifier describes");
        ev["assumptions"] = as;
        ev["simulated_time_note"] = "the property reads no clock; progress is counted in transport/operation steps (sim_steps)";
    }
};

} // namespace

int main(int argc, char **argv) {
    Runner<C09> r;
    return r.main(argc, argv);
}
