// C19 engine: sodium_init and the whole API under a seeded scheduler with an own happens-before race
// detector (DESIGN.md section 7; run-time in simrt.hpp/.cpp).
#define SIM_COMMON_IMPL
#include "common.hpp"
#include "runner.hpp"
#include "simrt.hpp"

#include <cerrno>
#include <poll.h>
#include <sys/mman.h>
#include <sys/stat.h>

extern "C" {
extern struct randombytes_implementation randombytes_internal_implementation;
}

namespace simrt {
void run_threads(int n, void (*body)(int));
int hook_mutex_lock(pthread_mutex_t *m);
int hook_mutex_unlock(pthread_mutex_t *m);
int hook_mutex_trylock(pthread_mutex_t *m);
int hook_mutex_timedlock(pthread_mutex_t *m, const struct timespec *);
int hook_nanosleep(const struct timespec *, struct timespec *);
}

using namespace sim;
using simrt::RT;
using simrt::tls_tid;

namespace {

typedef std::vector<unsigned char> Bytes;
const int MAXTHREADS = 16;

#ifndef C19_LOCK_VARIANT
#define C19_LOCK_VARIANT "pthread"
#endif

// ---------------- environment seen by the library ----------------
struct Env {
    uint64_t entropy_seed = 0;
    uint64_t ent_off[MAXTHREADS + 2];
    uint64_t tod[MAXTHREADS + 2];
    bool in_init[MAXTHREADS + 2];
    // what sodium_init did at the environment boundary (summed over all threads)
    uint64_t init_pagesize_queries = 0, init_entropy_calls = 0, init_entropy_bytes = 0, init_stirs = 0, init_src_bytes = 0;
    uint64_t total_entropy_calls = 0;
    // the same counters at the moment the FIRST sodium_init() call returned: in the sequential reference that is the
    // work of exactly one initialisation
    bool first_done = false;
    uint64_t first[5] = {0, 0, 0, 0, 0};
    int first_fds = 0, (*count_fds)() = nullptr;
    uint64_t first_keys = 0, *keys_counter = nullptr;
    void snapshot_first() { if (first_done) return; first_done = true; first_fds = count_fds ? count_fds() : 0; first_keys = keys_counter ? *keys_counter : 0; first[0] = init_pagesize_queries; first[1] = init_entropy_calls; first[2] = init_entropy_bytes; first[3] = init_stirs; first[4] = init_src_bytes; }
    void reset(uint64_t seed) {
        first_done = false; memset(first, 0, sizeof first); first_fds = 0;
        entropy_seed = seed;
        memset(ent_off, 0, sizeof ent_off); memset(tod, 0, sizeof tod); memset(in_init, 0, sizeof in_init);
        init_pagesize_queries = init_entropy_calls = init_entropy_bytes = init_stirs = init_src_bytes = total_entropy_calls = 0;
    }
    int slot() { return tls_tid >= 0 ? tls_tid : MAXTHREADS; } // main thread (pre-init knob) uses the last slot
    void serve(void *buf, size_t n) {
        int s = slot();
        unsigned char *b = (unsigned char *) buf;
        for (size_t i = 0; i < n; i++) b[i] = (unsigned char) mix64(mix64(entropy_seed, (uint64_t) s), ent_off[s] + i);
        ent_off[s] += n;
        total_entropy_calls++;
        if (in_init[s]) { init_entropy_calls++; init_entropy_bytes += n; }
    }
} ENV;

// per-thread deterministic environment faults (decided by thread and call index, so the sequential reference sees the
// same ones): getrandom() interrupted, mlock() refused
unsigned g_env_fault_pct = 0;
uint64_t g_env_calls[MAXTHREADS + 2];
uint64_t g_eintr_fired = 0, g_mlock_refused = 0;
bool env_fault(unsigned salt) {
    if (!g_env_fault_pct) return false;
    int s = tls_tid >= 0 ? tls_tid : MAXTHREADS;
    uint64_t k = g_env_calls[s]++;
    return mix64(mix64(0xfa017 + salt, (uint64_t) s), k) % 100 < g_env_fault_pct;
}
// kernel knob: a kernel without getrandom()/getentropy(): the generators fall back to reading /dev/urandom through a
// descriptor they keep open.  The descriptor table is process-wide kernel state: every use of a descriptor number is
// reported to the race detector as a read of a pseudo location, every open()/close() as a write.
bool g_no_getrandom = false;
const int FD_BASE = 1000, FD_MAX = 32;
struct SimFd { bool open = false; char dev = 0; } g_fds[FD_MAX];
// one cell per (descriptor number, thread): open()/close() by thread t write cell [fd][t], a use of the number by any
// thread reads the whole row.  So a use races with another thread's unordered close/open of that number (the bug class:
// a descriptor closed or recycled under a reader), while two threads opening and closing descriptors of their own never
// conflict with each other (the kernel serialises its table; number reuse is not a defect).
uint64_t g_fd_cells[FD_MAX][MAXTHREADS + 2];
uint64_t g_dev_reads = 0, g_dev_opens = 0;
void fd_access(int fd, bool write) {
    if (fd < FD_BASE || fd >= FD_BASE + FD_MAX) return;
    uintptr_t pc = (uintptr_t) __builtin_return_address(0);
    if (write) { simrt::on_access((uintptr_t) &g_fd_cells[fd - FD_BASE][ENV.slot()], 8, true, pc); return; }
    for (int t = 0; t < MAXTHREADS + 2; t++) simrt::on_access((uintptr_t) &g_fd_cells[fd - FD_BASE][t], 8, false, pc);
}
int open_sim_fds();
// kernel knob: the entropy system calls stop working AFTER initialisation (a seccomp filter installed later): from its
// k-th call outside sodium_init() on, every getrandom()/getentropy() of a thread fails for good.  The library's answer
// on the unchanged tree is sodium_misuse(); that termination is then a legitimate end of the run, not a finding.
unsigned g_entropy_dies_after = 0; int g_entropy_dies_errno = ENOSYS;
uint64_t g_entropy_calls_outside_init[MAXTHREADS + 2];
uint64_t g_entropy_dead_fired = 0;
bool entropy_dead() {
    if (!g_entropy_dies_after) return false;
    int s = ENV.slot();
    if (ENV.in_init[s]) return false;
    if (++g_entropy_calls_outside_init[s] < g_entropy_dies_after) return false;
    g_entropy_dead_fired++;
    return true;
}
ssize_t h_getrandom(void *buf, size_t n, unsigned) {
    simrt::yield_point(simrt::Y_SYSCALL, 10);
    if (g_no_getrandom) { errno = ENOSYS; return -1; }
    if (entropy_dead()) { errno = g_entropy_dies_errno; return -1; }
    if (env_fault(1)) { g_eintr_fired++; errno = (g_eintr_fired & 1) ? EINTR : EAGAIN; return -1; }
    ENV.serve(buf, n);
    simrt::on_access((uintptr_t) buf, n, true, (uintptr_t) __builtin_return_address(0)); // the kernel writes the caller's buffer
    return (ssize_t) n;
}
int h_getentropy(void *buf, size_t n) {
    simrt::yield_point(simrt::Y_SYSCALL, 11);
    if (g_no_getrandom) { errno = ENOSYS; return -1; }
    if (entropy_dead()) { errno = g_entropy_dies_errno; return -1; }
    ENV.serve(buf, n);
    simrt::on_access((uintptr_t) buf, n, true, (uintptr_t) __builtin_return_address(0));
    return 0;
}
// clock knob: the simulated clock stands still, so all threads (and all calls) read the same microsecond -- what a
// coarse clock or threads released from one barrier see.  Time is only a nonce for the library, never a source of
// uniqueness: every thread's stream is keyed from its own kernel entropy, so outputs must still never coincide.
bool g_frozen_clock = false; uint64_t g_frozen_clock_reads = 0;
int h_gettimeofday(struct timeval *tv, void *) {
    simrt::yield_point(simrt::Y_SYSCALL, 12);
    int s = ENV.slot();
    if (g_frozen_clock) { tv->tv_sec = 1700000000; tv->tv_usec = 424242; g_frozen_clock_reads++; return 0; } // every thread reads the same instant
    tv->tv_sec = 1700000000 + s; tv->tv_usec = (suseconds_t) (++ENV.tod[s]);
    return 0;
}
pid_t h_getpid(void) { return 4242; }
bool g_sysconf_fails = false;
uint64_t g_sysconf_failed = 0;
long h_sysconf(int name) {
    if (name == _SC_PAGESIZE) {
        simrt::yield_point(simrt::Y_SYSCALL, 13);
        if (ENV.in_init[ENV.slot()]) ENV.init_pagesize_queries++;
        if (g_sysconf_fails) { g_sysconf_failed++; errno = EINVAL; return -1; }
    }
    return simos_real_sysconf(name);
}
int h_open(const char *path, int, mode_t) {
    bool ur = !strcmp(path, "/dev/urandom"), rd = !strcmp(path, "/dev/random");
    if ((!g_no_getrandom && !g_entropy_dies_after) || (!ur && !rd)) { errno = ENOENT; return -1; }
    simrt::yield_point(simrt::Y_SYSCALL, 14);
    for (int i = 0; i < FD_MAX; i++) if (!g_fds[i].open) { // lowest free number, like the kernel
        fd_access(FD_BASE + i, true);
        g_fds[i].open = true; g_fds[i].dev = ur ? 'u' : 'r'; g_dev_opens++;
        return FD_BASE + i;
    }
    errno = EMFILE; return -1;
}
ssize_t h_read(int fd, void *buf, size_t n) {
    if (fd < FD_BASE || fd >= FD_BASE + FD_MAX) { errno = EBADF; return -1; }
    simrt::yield_point(simrt::Y_SYSCALL, 15);
    fd_access(fd, false);
    if (!g_fds[fd - FD_BASE].open) { errno = EBADF; return -1; }
    if (env_fault(3)) { g_eintr_fired++; errno = (g_eintr_fired & 1) ? EINTR : EAGAIN; return -1; }
    ENV.serve(buf, n);
    g_dev_reads++;
    simrt::on_access((uintptr_t) buf, n, true, (uintptr_t) __builtin_return_address(0));
    return (ssize_t) n;
}
int h_close(int fd) {
    if (fd < FD_BASE || fd >= FD_BASE + FD_MAX) { errno = EBADF; return -1; }
    simrt::yield_point(simrt::Y_SYSCALL, 16);
    fd_access(fd, true);
    if (!g_fds[fd - FD_BASE].open) { errno = EBADF; return -1; }
    g_fds[fd - FD_BASE].open = false;
    return 0;
}
int h_fstat(int fd, struct stat *st) {
    if (fd < FD_BASE || fd >= FD_BASE + FD_MAX || !g_fds[fd - FD_BASE].open) { errno = EBADF; return -1; }
    fd_access(fd, false);
    memset(st, 0, sizeof *st); st->st_mode = S_IFCHR | 0666;
    return 0;
}
int open_sim_fds() { int n = 0; for (auto &f : g_fds) n += f.open; return n; }
int h_fcntl(int fd, int, long) { fd_access(fd, false); return 0; }
int h_poll(struct pollfd *pf, nfds_t n, int) {
    simrt::yield_point(simrt::Y_SYSCALL, 17);
    if (env_fault(5)) { g_eintr_fired++; errno = EINTR; return -1; } // a signal arrives while waiting on /dev/random
    for (nfds_t i = 0; i < n; i++) { fd_access(pf[i].fd, false); pf[i].revents = POLLIN; }
    return (int) n;
}

// library allocations become tracked blocks
void *h_malloc(size_t n) {
    int d = simos_suspend();
    void *p = simos_real_malloc(n);
    if (p) simrt::register_block((uintptr_t) p, n, 'm');
    simos_resume(d);
    simrt::yield_point(simrt::Y_SYSCALL, 20);
    return p;
}
void *h_calloc(size_t a, size_t b) {
    int d = simos_suspend();
    void *p = simos_real_calloc(a, b);
    if (p) simrt::register_block((uintptr_t) p, a * b, 'm');
    simos_resume(d);
    simrt::yield_point(simrt::Y_SYSCALL, 21);
    return p;
}
void h_free(void *p) {
    if (!p) return;
    int d = simos_suspend();
    simrt::unregister_block((uintptr_t) p);
    simos_real_free(p);
    simos_resume(d);
    simrt::yield_point(simrt::Y_SYSCALL, 22);
}
int h_posix_memalign(void **out, size_t al, size_t n) {
    int d = simos_suspend();
    int rc = simos_real_posix_memalign(out, al, n);
    if (rc == 0) simrt::register_block((uintptr_t) *out, n, 'm');
    simos_resume(d);
    return rc;
}
std::map<uintptr_t, size_t> g_lib_maps; // every mapping the library currently owns (whoever made it, whenever)
void *h_mmap(void *addr, size_t len, int prot, int flags, int fd, off_t off) {
    int d = simos_suspend();
    void *p;
    if (g_sysconf_fails) {
        // a platform whose page size the library cannot query: it assumes its 64 KiB default, so the simulated
        // kernel hands out 64 KiB-aligned mappings (as a kernel with that page size would)
        const size_t P = 0x10000;
        unsigned char *raw = (unsigned char *) simos_real_mmap(addr, len + P, prot, flags & ~MAP_POPULATE, fd, off);
        p = raw;
        if (raw != MAP_FAILED) {
            uintptr_t a = ((uintptr_t) raw + P - 1) / P * P;
            if (a > (uintptr_t) raw) simos_real_munmap(raw, a - (uintptr_t) raw);
            uintptr_t tail = a + len, rawend = (uintptr_t) raw + len + P;
            tail = (tail + 4095) & ~(uintptr_t) 4095;
            if (rawend > tail) simos_real_munmap((void *) tail, rawend - tail);
            p = (void *) a;
        }
    } else p = simos_real_mmap(addr, len, prot, flags & ~MAP_POPULATE, fd, off);
    if (p != MAP_FAILED) { simrt::register_block((uintptr_t) p, len, 'M'); g_lib_maps[(uintptr_t) p] = len; }
    simos_resume(d);
    simrt::yield_point(simrt::Y_SYSCALL, 23);
    return p;
}
int h_munmap(void *addr, size_t len) {
    int d = simos_suspend();
    auto it = g_lib_maps.find((uintptr_t) addr);
    if (it == g_lib_maps.end()) {
        // the address space is process-wide: unmapping a range the library no longer owns (a second munmap of the same
        // region) is harmless only while no other thread has been given those addresses in between
        simos_resume(d);
        if (tls_tid >= 0) simrt::fatal("munmap-of-unowned-range", "munmap", "the library unmapped " + std::to_string(len) + " bytes at an address it does not (or no longer) own, in thread " + std::to_string(tls_tid) + ": any mapping another thread obtained there in the meantime is destroyed");
        return 0;
    }
    g_lib_maps.erase(it);
    simrt::unregister_block((uintptr_t) addr);
    int rc = simos_real_munmap(addr, len);
    simos_resume(d);
    simrt::yield_point(simrt::Y_SYSCALL, 24);
    return rc;
}
int h_mprotect(void *a, size_t l, int p) { simrt::yield_point(simrt::Y_SYSCALL, 25); return simos_real_mprotect(a, l, p); }
int h_mlock(const void *, size_t) {
    simrt::yield_point(simrt::Y_SYSCALL, 26);
    if (env_fault(2)) { g_mlock_refused++; errno = ENOMEM; return -1; }
    return 0;
}
int h_munlock(const void *, size_t) { return 0; }
int h_madvise(void *, size_t, int) { return 0; }

int h_raise(int sig) {
    if (tls_tid >= 0 && g_entropy_dead_fired) simrt::fatal("entropy-failure-termination", "raise", "terminated after the entropy system calls failed");
    if (tls_tid >= 0) simrt::fatal("terminated", "raise", "the library raised signal " + std::to_string(sig) + " in thread " + std::to_string(tls_tid) + " (guarded-allocation canary mismatch or similar)");
    return simos_real_raise(sig);
}
void h_abort(void) {
    if (tls_tid >= 0 && g_entropy_dead_fired) simrt::fatal("entropy-failure-termination", "abort", "sodium_misuse() after the entropy system calls failed");
    if (tls_tid >= 0) simrt::fatal("terminated", "abort", "the library called abort() in thread " + std::to_string(tls_tid));
}
void h_assert_fail(const char *e, const char *f, unsigned line, const char *fn) {
    if (tls_tid >= 0) simrt::fatal("assertion", std::string("assert:") + e, std::string("assertion `") + e + "' failed in " + fn + " (" + f + ":" + std::to_string(line) + ") in thread " + std::to_string(tls_tid));
}

// Process-wide kernel state (resource limits, signal dispositions, umask) behaves like shared memory: a library that
// reads and rewrites it from several threads races on it exactly as it would on a global variable.  Every such call
// made from inside the library is reported to the race detector as an access to a pseudo location.
uint64_t g_process_state[3][70];
// pthread_sigmask()/sigprocmask() called from inside the library: the kernel reads the new mask and writes the old one
// through the caller's pointers -- accesses the instrumentation cannot see, reported here on the kernel's behalf
void h_sigmask(const void *set, void *oldset, size_t n) {
    simrt::yield_point(simrt::Y_SYSCALL, 34);
    uintptr_t pc = (uintptr_t) __builtin_return_address(0);
    if (set) simrt::on_access((uintptr_t) set, n, false, pc);
    if (oldset) simrt::on_access((uintptr_t) oldset, n, true, pc);
    RT.counters["probe.library_changed_signal_mask"]++;
}
uint64_t g_tsd_keys_created = 0; // thread-specific-data keys the library has created (a pool of 1024 per process)
void h_process_state(int what, int arg, int is_write) {
    if (what == 3 || what == 4) { g_tsd_keys_created++; return; } // (fork handlers: the same kind of never-returned process-wide registration)
    if (what < 0 || what > 2) return;
    simrt::yield_point(simrt::Y_SYSCALL, 30 + (uintptr_t) what);
    simrt::on_access((uintptr_t) &g_process_state[what][(unsigned) arg % 70], 8, is_write != 0, (uintptr_t) __builtin_return_address(0));
    RT.counters[is_write ? "probe.library_wrote_process_wide_state" : "probe.library_read_process_wide_state"]++;
}

// the simulated process is unprivileged with a small soft locked-memory limit below an unlimited hard one (the common
// desktop/container situation); limits set by the library are kept in the model, never applied to the real process
#include <sys/resource.h>
struct rlimit g_rl_memlock = {65536, RLIM_INFINITY};
int h_getrlimit(int r, void *out) { if (r == RLIMIT_MEMLOCK) { *(struct rlimit *) out = g_rl_memlock; return 0; } return -1; }
int h_setrlimit(int r, const void *in) { if (r == RLIMIT_MEMLOCK) { g_rl_memlock = *(const struct rlimit *) in; return 0; } errno = EPERM; return -1; }

// scripted per-thread source (RNG configuration "scripted")
uint64_t g_script_seed = 0;
uint64_t g_script_off[MAXTHREADS + 2];
void script_serve(void *buf, size_t n) {
    int s = ENV.slot();
    unsigned char *b = (unsigned char *) buf;
    for (size_t i = 0; i < n; i++) b[i] = (unsigned char) mix64(mix64(g_script_seed, 0x5c + (uint64_t) s), g_script_off[s] + i);
    g_script_off[s] += n;
    if (ENV.in_init[s]) ENV.init_src_bytes += n;
}
const char *sc_name(void) { return "scripted-per-thread"; }
uint32_t sc_random(void) { uint32_t v; script_serve(&v, 4); return v; }
void sc_stir(void) { if (ENV.in_init[ENV.slot()]) ENV.init_stirs++; }
void sc_buf(void *const buf, const size_t n) { script_serve(buf, n); simrt::on_access((uintptr_t) buf, n, true, (uintptr_t) __builtin_return_address(0)); }
int sc_close(void) { return 0; }
randombytes_implementation g_scripted_mt = {sc_name, sc_random, sc_stir, nullptr, sc_buf, sc_close};

// ---------------- workload ----------------
// Shared-arena mode: the callers' buffers of ALL threads are carved, back to back and in schedule order, out of one
// block that is registered as tracked memory.  Every buffer still belongs to exactly one thread (the property's
// premise), but a library access that strays outside the buffer it was given lands in a neighbour -- usually another
// thread's -- and is then seen by the race detector, whatever instrumentation-visible code made it.
struct Arena { unsigned char *base = nullptr; size_t cap = 0, used = 0; bool on = false; } g_arena;
unsigned char *arena_alloc(size_t n) {
    if (!g_arena.on || g_arena.used + n + 1 > g_arena.cap) return nullptr;
    unsigned char *p = g_arena.base + g_arena.used;
    g_arena.used += n ? n : 1;
    return p;
}
struct Ctx {
    int tid; uint64_t seed; Rng in; Digest out;
    std::vector<Bytes> keep;
    unsigned char *buf(size_t n) {
        if (unsigned char *p = arena_alloc(n)) return p;
        keep.emplace_back(n ? n : 1); return keep.back().data();
    }
    unsigned char *input(size_t n) { unsigned char *p = buf(n); in.fill(p, n); return p; }
    void emit(const void *p, size_t n) { out.add(p, n); }
    void emit(long v) { out.add((uint64_t) v); }
};
typedef void (*OpFn)(Ctx &);
struct OpDesc { const char *name; OpFn fn; };

#define OP(name) static void op_##name(Ctx &c)
OP(sha256) { size_t n = c.in.below(300); unsigned char *m = c.input(n), *h = c.buf(32); { LibScope l; crypto_hash_sha256(h, m, n); } c.emit(h, 32); }
OP(sha512) { size_t n = c.in.below(300); unsigned char *m = c.input(n), *h = c.buf(64); { LibScope l; crypto_hash_sha512(h, m, n); } c.emit(h, 64); }
OP(sha256_multi) {
    size_t n = c.in.below(400), cut = c.in.below(n + 1); unsigned char *m = c.input(n), *h = c.buf(32);
    crypto_hash_sha256_state *st = (crypto_hash_sha256_state *) c.buf(sizeof(crypto_hash_sha256_state));
    { LibScope l; crypto_hash_sha256_init(st); crypto_hash_sha256_update(st, m, cut); crypto_hash_sha256_update(st, m + cut, n - cut); crypto_hash_sha256_final(st, h); }
    c.emit(h, 32);
}
OP(generichash) {
    size_t n = c.in.below(300), kl = c.in.chance(1, 2) ? 0 : 32, ol = 16 + c.in.below(49); unsigned char *m = c.input(n), *k = c.input(32), *h = c.buf(64);
    { LibScope l; crypto_generichash(h, ol, m, n, kl ? k : nullptr, kl); }
    c.emit(h, ol);
}
OP(generichash_multi) {
    size_t n = c.in.below(500), cut = c.in.below(n + 1); unsigned char *m = c.input(n), *k = c.input(32), *h = c.buf(32);
    crypto_generichash_state *st = (crypto_generichash_state *) c.buf(sizeof(crypto_generichash_state) + 64);
    st = (crypto_generichash_state *) (((uintptr_t) st + 63) & ~(uintptr_t) 63);
    { LibScope l; crypto_generichash_init(st, k, 32, 32); crypto_generichash_update(st, m, cut); crypto_generichash_update(st, m + cut, n - cut); crypto_generichash_final(st, h, 32); }
    c.emit(h, 32);
}
OP(auth) {
    size_t n = c.in.below(200); unsigned char *m = c.input(n), *k = c.input(32), *t = c.buf(32); int v;
    { LibScope l; crypto_auth(t, m, n, k); v = crypto_auth_verify(t, m, n, k); }
    c.emit(t, 32); c.emit(v);
}
OP(auth_hmacsha512) { size_t n = c.in.below(200); unsigned char *m = c.input(n), *k = c.input(32), *t = c.buf(64); { LibScope l; crypto_auth_hmacsha512(t, m, n, k); } c.emit(t, 64); }
OP(shorthash) { size_t n = c.in.below(100); unsigned char *m = c.input(n), *k = c.input(16), *h = c.buf(8); { LibScope l; crypto_shorthash(h, m, n, k); } c.emit(h, 8); }
OP(onetimeauth) {
    size_t n = c.in.below(300); unsigned char *m = c.input(n), *k = c.input(32), *t = c.buf(16); int v;
    { LibScope l; crypto_onetimeauth(t, m, n, k); v = crypto_onetimeauth_verify(t, m, n, k); }
    c.emit(t, 16); c.emit(v);
}
OP(stream_chacha20) { size_t n = c.in.below(700); unsigned char *k = c.input(32), *no = c.input(12), *o = c.buf(n); { LibScope l; crypto_stream_chacha20_ietf(o, n, no, k); } c.emit(o, n); }
OP(stream_xsalsa20_xor) { size_t n = c.in.below(700); unsigned char *m = c.input(n), *k = c.input(32), *no = c.input(24), *o = c.buf(n); { LibScope l; crypto_stream_xor(o, m, n, no, k); } c.emit(o, n); }
OP(stream_salsa20) { size_t n = c.in.below(400); unsigned char *k = c.input(32), *no = c.input(8), *o = c.buf(n); { LibScope l; crypto_stream_salsa20(o, n, no, k); } c.emit(o, n); }
OP(aead_xchacha) {
    size_t n = c.in.below(300), al = c.in.below(40); unsigned char *m = c.input(n), *ad = c.input(al), *k = c.input(32), *no = c.input(24), *ct = c.buf(n + 16), *d = c.buf(n);
    unsigned long long cl = 0, dl = 0; int v;
    { LibScope l; crypto_aead_xchacha20poly1305_ietf_encrypt(ct, &cl, m, n, ad, al, nullptr, no, k); v = crypto_aead_xchacha20poly1305_ietf_decrypt(d, &dl, nullptr, ct, cl, ad, al, no, k); }
    c.emit(ct, (size_t) cl); c.emit(v); c.emit(d, (size_t) dl);
}
OP(aead_chacha_detached) {
    size_t n = c.in.below(300); unsigned char *m = c.input(n), *k = c.input(32), *no = c.input(12), *ct = c.buf(n), *mac = c.buf(16), *d = c.buf(n); unsigned long long ml = 0; int v;
    { LibScope l; crypto_aead_chacha20poly1305_ietf_encrypt_detached(ct, mac, &ml, m, n, nullptr, 0, nullptr, no, k); v = crypto_aead_chacha20poly1305_ietf_decrypt_detached(d, nullptr, ct, n, mac, nullptr, 0, no, k); }
    c.emit(ct, n); c.emit(mac, 16); c.emit(v);
}
OP(aead_aes256gcm) {
    size_t n = c.in.below(300); unsigned char *m = c.input(n), *k = c.input(32), *no = c.input(12), *ct = c.buf(n + 16), *d = c.buf(n); unsigned long long cl = 0, dl = 0; int v = -2, av;
    { LibScope l; av = crypto_aead_aes256gcm_is_available(); if (av) { crypto_aead_aes256gcm_encrypt(ct, &cl, m, n, nullptr, 0, nullptr, no, k); v = crypto_aead_aes256gcm_decrypt(d, &dl, nullptr, ct, cl, nullptr, 0, no, k); } }
    c.emit(av); c.emit(ct, (size_t) cl); c.emit(v);
}
OP(aead_aegis128l) {
    size_t n = c.in.below(300); unsigned char *m = c.input(n), *k = c.input(16), *no = c.input(16), *ct = c.buf(n + 32), *d = c.buf(n); unsigned long long cl = 0, dl = 0; int v;
    { LibScope l; crypto_aead_aegis128l_encrypt(ct, &cl, m, n, nullptr, 0, nullptr, no, k); v = crypto_aead_aegis128l_decrypt(d, &dl, nullptr, ct, cl, nullptr, 0, no, k); }
    c.emit(ct, (size_t) cl); c.emit(v);
}
OP(aead_aegis256) {
    size_t n = c.in.below(300); unsigned char *m = c.input(n), *k = c.input(32), *no = c.input(32), *ct = c.buf(n + 32), *d = c.buf(n); unsigned long long cl = 0, dl = 0; int v;
    { LibScope l; crypto_aead_aegis256_encrypt(ct, &cl, m, n, nullptr, 0, nullptr, no, k); v = crypto_aead_aegis256_decrypt(d, &dl, nullptr, ct, cl, nullptr, 0, no, k); }
    c.emit(ct, (size_t) cl); c.emit(v);
}
OP(secretbox) {
    size_t n = c.in.below(300); unsigned char *m = c.input(n), *k = c.input(32), *no = c.input(24), *ct = c.buf(n + 16), *d = c.buf(n); int v;
    { LibScope l; crypto_secretbox_easy(ct, m, n, no, k); v = crypto_secretbox_open_easy(d, ct, n + 16, no, k); }
    c.emit(ct, n + 16); c.emit(v);
}
OP(box) {
    size_t n = c.in.below(200); unsigned char *m = c.input(n), *s1 = c.input(32), *s2 = c.input(32), *no = c.input(24), *pk1 = c.buf(32), *sk1 = c.buf(32), *pk2 = c.buf(32), *sk2 = c.buf(32), *ct = c.buf(n + 16), *d = c.buf(n); int v;
    { LibScope l; crypto_box_seed_keypair(pk1, sk1, s1); crypto_box_seed_keypair(pk2, sk2, s2); crypto_box_easy(ct, m, n, no, pk2, sk1); v = crypto_box_open_easy(d, ct, n + 16, no, pk1, sk2); }
    c.emit(ct, n + 16); c.emit(v);
}
OP(box_beforenm) {
    unsigned char *s1 = c.input(32), *s2 = c.input(32), *pk1 = c.buf(32), *sk1 = c.buf(32), *pk2 = c.buf(32), *sk2 = c.buf(32), *k = c.buf(32);
    { LibScope l; crypto_box_seed_keypair(pk1, sk1, s1); crypto_box_seed_keypair(pk2, sk2, s2); crypto_box_beforenm(k, pk2, sk1); }
    c.emit(k, 32);
}
OP(box_keypair_seal) {
    size_t n = c.in.below(100); unsigned char *m = c.input(n), *pk = c.buf(32), *sk = c.buf(32), *ct = c.buf(n + 48), *d = c.buf(n); int v;
    { LibScope l; crypto_box_keypair(pk, sk); crypto_box_seal(ct, m, n, pk); v = crypto_box_seal_open(d, ct, n + 48, pk, sk); }
    c.emit(pk, 32); c.emit(sk, 32); c.emit(ct, n + 48); c.emit(v);
}
OP(sign) {
    size_t n = c.in.below(200); unsigned char *m = c.input(n), *seed = c.input(32), *pk = c.buf(32), *sk = c.buf(64), *sig = c.buf(64); int v;
    { LibScope l; crypto_sign_seed_keypair(pk, sk, seed); crypto_sign_detached(sig, nullptr, m, n, sk); v = crypto_sign_verify_detached(sig, m, n, pk); }
    c.emit(sig, 64); c.emit(v);
}
OP(sign_multi) {
    size_t n = c.in.below(300), cut = c.in.below(n + 1); unsigned char *m = c.input(n), *pk = c.buf(32), *sk = c.buf(64), *sig = c.buf(64); int v;
    crypto_sign_state *st = (crypto_sign_state *) c.buf(sizeof(crypto_sign_state));
    { LibScope l; crypto_sign_keypair(pk, sk); crypto_sign_init(st); crypto_sign_update(st, m, cut); crypto_sign_update(st, m + cut, n - cut); crypto_sign_final_create(st, sig, nullptr, sk);
      crypto_sign_init(st); crypto_sign_update(st, m, n); v = crypto_sign_final_verify(st, sig, pk); }
    c.emit(pk, 32); c.emit(sig, 64); c.emit(v);
}
OP(scalarmult) {
    unsigned char *s = c.input(32), *p = c.buf(32), *q = c.buf(32); int r;
    { LibScope l; crypto_scalarmult_base(p, s); r = crypto_scalarmult(q, s, p); }
    c.emit(p, 32); c.emit(q, 32); c.emit(r);
}
OP(ed25519_core) {
    unsigned char *h = c.input(32), *s = c.input(32), *p = c.buf(32), *q = c.buf(32), *r = c.buf(32); int a, b;
    { LibScope l; crypto_core_ed25519_from_uniform(p, h); a = crypto_scalarmult_ed25519_noclamp(q, s, p); b = crypto_core_ed25519_add(r, p, q); }
    c.emit(p, 32); c.emit(q, 32); c.emit(r, 32); c.emit(a * 2 + b);
}
OP(ristretto_random) {
    unsigned char *p = c.buf(32), *s = c.buf(32), *q = c.buf(32); int a;
    { LibScope l; crypto_core_ristretto255_random(p); crypto_core_ristretto255_scalar_random(s); a = crypto_scalarmult_ristretto255(q, s, p); }
    c.emit(p, 32); c.emit(s, 32); c.emit(q, 32); c.emit(a);
}
OP(ed25519_random) {
    unsigned char *p = c.buf(32), *s = c.buf(32);
    { LibScope l; crypto_core_ed25519_random(p); crypto_core_ed25519_scalar_random(s); }
    c.emit(p, 32); c.emit(s, 32);
}
OP(kx) {
    unsigned char *s1 = c.input(32), *s2 = c.input(32), *pk1 = c.buf(32), *sk1 = c.buf(32), *pk2 = c.buf(32), *sk2 = c.buf(32), *rx = c.buf(32), *tx = c.buf(32); int a;
    { LibScope l; crypto_kx_seed_keypair(pk1, sk1, s1); crypto_kx_seed_keypair(pk2, sk2, s2); a = crypto_kx_client_session_keys(rx, tx, pk1, sk1, pk2); }
    c.emit(rx, 32); c.emit(tx, 32); c.emit(a);
}
OP(kdf) { unsigned char *k = c.input(32), *o = c.buf(64); uint64_t id = c.in.next(); { LibScope l; crypto_kdf_derive_from_key(o, 16 + id % 49, id, "verifctx", k); } c.emit(o, 16 + id % 49); }
OP(hkdf) {
    size_t n = c.in.below(80); unsigned char *ikm = c.input(n), *salt = c.input(16), *prk = c.buf(32), *o = c.buf(100);
    { LibScope l; crypto_kdf_hkdf_sha256_extract(prk, salt, 16, ikm, n); crypto_kdf_hkdf_sha256_expand(o, 100, "ctx", 3, prk); }
    c.emit(o, 100);
}
OP(secretstream) {
    size_t n = c.in.below(200); unsigned char *m = c.input(n), *k = c.buf(32), *hdr = c.buf(24), *ct = c.buf(n + 17), *d = c.buf(n); unsigned char tag = 0; int v;
    crypto_secretstream_xchacha20poly1305_state *st = (crypto_secretstream_xchacha20poly1305_state *) c.buf(sizeof(crypto_secretstream_xchacha20poly1305_state)), *st2 = (crypto_secretstream_xchacha20poly1305_state *) c.buf(sizeof(crypto_secretstream_xchacha20poly1305_state));
    { LibScope l; crypto_secretstream_xchacha20poly1305_keygen(k); crypto_secretstream_xchacha20poly1305_init_push(st, hdr, k); crypto_secretstream_xchacha20poly1305_push(st, ct, nullptr, m, n, nullptr, 0, 3);
      crypto_secretstream_xchacha20poly1305_init_pull(st2, hdr, k); v = crypto_secretstream_xchacha20poly1305_pull(st2, d, nullptr, &tag, ct, n + 17, nullptr, 0); }
    c.emit(k, 32); c.emit(hdr, 24); c.emit(ct, n + 17); c.emit(v * 16 + tag);
}
OP(pwhash_argon2id) { unsigned char *salt = c.input(16), *o = c.buf(32); const char *pw = "pass word"; int r; { LibScope l; r = crypto_pwhash(o, 32, pw, 9, salt, 1, 8192, crypto_pwhash_ALG_ARGON2ID13); } c.emit(o, 32); c.emit(r); }
OP(pwhash_argon2i) { unsigned char *salt = c.input(16), *o = c.buf(24); const char *pw = "pass word"; int r; { LibScope l; r = crypto_pwhash(o, 24, pw, 9, salt, 3, 16384, crypto_pwhash_ALG_ARGON2I13); } c.emit(o, 24); c.emit(r); }
OP(pwhash_str) {
    char *s = (char *) c.buf(crypto_pwhash_STRBYTES); const char *pw = "another password"; int r, v, w, nr;
    { LibScope l; r = crypto_pwhash_str(s, pw, strlen(pw), 1, 8192); v = crypto_pwhash_str_verify(s, pw, strlen(pw)); w = crypto_pwhash_str_verify(s, "wrong", 5); nr = crypto_pwhash_str_needs_rehash(s, 1, 8192); }
    c.emit(s, strlen(s)); c.emit(r * 1000 + v * 100 + w * 10 + nr);
}
OP(scrypt_ll) { unsigned char *salt = c.input(16), *o = c.buf(32); int r; { LibScope l; r = crypto_pwhash_scryptsalsa208sha256_ll((const uint8_t *) "pw", 2, salt, 16, 4, 1, 1, o, 32); } c.emit(o, 32); c.emit(r); }
OP(codecs) {
    size_t n = c.in.below(60); unsigned char *b = c.input(n), *back = c.buf(n + 1); char *hex = (char *) c.buf(2 * n + 1), *b64 = (char *) c.buf(sodium_base64_ENCODED_LEN(n, sodium_base64_VARIANT_URLSAFE)); size_t bl = 0; int r;
    { LibScope l; sodium_bin2hex(hex, 2 * n + 1, b, n); sodium_bin2base64(b64, sodium_base64_ENCODED_LEN(n, sodium_base64_VARIANT_URLSAFE), b, n, sodium_base64_VARIANT_URLSAFE); r = sodium_hex2bin(back, n + 1, hex, 2 * n, nullptr, &bl, nullptr); }
    c.emit(hex, 2 * n); c.emit(b64, strlen(b64)); c.emit(r); c.emit(back, bl);
}
OP(padding) {
    size_t n = c.in.below(50), bs = 1 + c.in.below(33); unsigned char *b = c.buf(n + bs + 1); size_t pl = 0, ul = 0; int a, r;
    { LibScope l; a = sodium_pad(&pl, b, n, bs, n + bs + 1); r = sodium_unpad(&ul, b, pl, bs); }
    c.emit(a * 2 + r); c.emit((long) pl); c.emit((long) ul);
}
OP(utils) {
    unsigned char *a = c.input(32), *b = c.input(32); int r1, r2, z;
    { LibScope l; r1 = sodium_memcmp(a, b, 32); r2 = sodium_compare(a, b, 32); sodium_increment(a, 32); sodium_add(a, b, 32); z = sodium_is_zero(b, 32); sodium_memzero(b, 32); }
    c.emit(a, 32); c.emit(r1 * 100 + r2 * 10 + z);
}
OP(randombytes) {
    unsigned char *b = c.buf(70); uint32_t u, r;
    { LibScope l; randombytes_buf(b, 70); u = randombytes_uniform(1000003); r = randombytes_random(); }
    c.emit(b, 70); c.emit((long) u); c.emit((long) r);
}
OP(randombytes_small) { unsigned char *b = c.buf(16); { LibScope l; randombytes_buf(b, 16); } c.emit(b, 16); }
OP(keygens) {
    unsigned char *k1 = c.buf(32), *k2 = c.buf(32), *k3 = c.buf(64);
    { LibScope l; crypto_secretbox_keygen(k1); crypto_aead_xchacha20poly1305_ietf_keygen(k2); crypto_generichash_keygen(k3); }
    c.emit(k1, 32); c.emit(k2, 32); c.emit(k3, 32);
}
OP(guarded_alloc) {
    size_t n = 1 + c.in.below(9000); void *p; int a, b, d; unsigned char first = 0, last = 0;
    { LibScope l; p = sodium_malloc(n); if (p) { first = ((unsigned char *) p)[0]; ((unsigned char *) p)[n - 1] = 7; a = sodium_mprotect_readonly(p); last = ((unsigned char *) p)[n - 1]; b = sodium_mprotect_noaccess(p); d = sodium_mprotect_readwrite(p); sodium_free(p); } else a = b = d = -9; }
    c.emit(p != nullptr); c.emit(first * 256 + last); c.emit(a * 100 + b * 10 + d);
}
OP(guarded_allocarray) {
    void *p; { LibScope l; p = sodium_allocarray(3 + c.in.below(5), 40); if (p) { memset(p, 1, 120); sodium_free(p); } }
    c.emit(p != nullptr);
}
OP(mlock) { unsigned char *b = c.input(200); int a, d; { LibScope l; a = sodium_mlock(b, 200); d = sodium_munlock(b, 200); } c.emit(a * 10 + d); c.emit(b, 200); }
OP(runtime_info) {
    int v; const char *n; { LibScope l; v = sodium_runtime_has_avx2() * 4 + sodium_runtime_has_ssse3() * 2 + sodium_runtime_has_aesni(); n = crypto_generichash_primitive(); }
    c.emit(v); c.emit(n, strlen(n));
}

OP(aead_chacha_orig) {
    size_t n = c.in.below(300), al = c.in.below(20); unsigned char *m = c.input(n), *ad = c.input(al), *k = c.input(32), *no = c.input(8), *ct = c.buf(n + 16), *d = c.buf(n); unsigned long long cl = 0, dl = 0; int v;
    { LibScope l; crypto_aead_chacha20poly1305_encrypt(ct, &cl, m, n, ad, al, nullptr, no, k); v = crypto_aead_chacha20poly1305_decrypt(d, &dl, nullptr, ct, cl, ad, al, no, k); }
    c.emit(ct, (size_t) cl); c.emit(v);
}
OP(aes256gcm_state) {
    size_t n = c.in.below(200); unsigned char *m = c.input(n), *k = c.input(32), *no = c.input(12), *ct = c.buf(n + 16); unsigned long long cl = 0; int av;
    crypto_aead_aes256gcm_state *st = (crypto_aead_aes256gcm_state *) (((uintptr_t) c.buf(sizeof(crypto_aead_aes256gcm_state) + 16) + 15) & ~(uintptr_t) 15);
    { LibScope l; av = crypto_aead_aes256gcm_is_available(); if (av) { crypto_aead_aes256gcm_beforenm(st, k); crypto_aead_aes256gcm_encrypt_afternm(ct, &cl, m, n, nullptr, 0, nullptr, no, st); } }
    c.emit(av); c.emit(ct, (size_t) cl);
}
OP(stream_xchacha20) { size_t n = c.in.below(600); unsigned char *k = c.input(32), *no = c.input(24), *o = c.buf(n); { LibScope l; crypto_stream_xchacha20(o, n, no, k); } c.emit(o, n); }
OP(stream_salsa_variants) {
    size_t n = c.in.below(300); unsigned char *k = c.input(32), *no = c.input(8), *o = c.buf(n), *o2 = c.buf(n);
    { LibScope l; crypto_stream_salsa2012(o, n, no, k); crypto_stream_salsa208(o2, n, no, k); }
    c.emit(o, n); c.emit(o2, n);
}
OP(hchacha_hsalsa) {
    unsigned char *in = c.input(16), *k = c.input(32), *o = c.buf(32), *o2 = c.buf(32);
    { LibScope l; crypto_core_hchacha20(o, in, k, nullptr); crypto_core_hsalsa20(o2, in, k, nullptr); }
    c.emit(o, 32); c.emit(o2, 32);
}
OP(hmacsha256_multi) {
    size_t n = c.in.below(300), cut = c.in.below(n + 1); unsigned char *m = c.input(n), *k = c.input(40), *t = c.buf(32);
    crypto_auth_hmacsha256_state *st = (crypto_auth_hmacsha256_state *) c.buf(sizeof(crypto_auth_hmacsha256_state));
    { LibScope l; crypto_auth_hmacsha256_init(st, k, 40); crypto_auth_hmacsha256_update(st, m, cut); crypto_auth_hmacsha256_update(st, m + cut, n - cut); crypto_auth_hmacsha256_final(st, t); }
    c.emit(t, 32);
}
OP(sha512_multi) {
    size_t n = c.in.below(400), cut = c.in.below(n + 1); unsigned char *m = c.input(n), *h = c.buf(64);
    crypto_hash_sha512_state *st = (crypto_hash_sha512_state *) c.buf(sizeof(crypto_hash_sha512_state));
    { LibScope l; crypto_hash_sha512_init(st); crypto_hash_sha512_update(st, m, cut); crypto_hash_sha512_update(st, m + cut, n - cut); crypto_hash_sha512_final(st, h); }
    c.emit(h, 64);
}
OP(blake2b_salt_personal) {
    size_t n = c.in.below(200); unsigned char *m = c.input(n), *k = c.input(32), *sa = c.input(16), *pe = c.input(16), *h = c.buf(64);
    { LibScope l; crypto_generichash_blake2b_salt_personal(h, 64, m, n, k, 32, sa, pe); }
    c.emit(h, 64);
}
OP(onetimeauth_multi) {
    size_t n = c.in.below(300), cut = c.in.below(n + 1); unsigned char *m = c.input(n), *k = c.input(32), *t = c.buf(16);
    crypto_onetimeauth_state *st = (crypto_onetimeauth_state *) (((uintptr_t) c.buf(sizeof(crypto_onetimeauth_state) + 64) + 63) & ~(uintptr_t) 63);
    { LibScope l; crypto_onetimeauth_init(st, k); crypto_onetimeauth_update(st, m, cut); crypto_onetimeauth_update(st, m + cut, n - cut); crypto_onetimeauth_final(st, t); }
    c.emit(t, 16);
}
OP(siphashx24) { size_t n = c.in.below(100); unsigned char *m = c.input(n), *k = c.input(16), *h = c.buf(16); { LibScope l; crypto_shorthash_siphashx24(h, m, n, k); } c.emit(h, 16); }
OP(hkdf_sha512) {
    size_t n = c.in.below(80); unsigned char *ikm = c.input(n), *salt = c.input(16), *prk = c.buf(64), *o = c.buf(80);
    { LibScope l; crypto_kdf_hkdf_sha512_extract(prk, salt, 16, ikm, n); crypto_kdf_hkdf_sha512_expand(o, 80, "ctx", 3, prk); }
    c.emit(o, 80);
}
OP(secretbox_detached) {
    size_t n = c.in.below(300); unsigned char *m = c.input(n), *k = c.input(32), *no = c.input(24), *ct = c.buf(n), *mac = c.buf(16), *d = c.buf(n); int v;
    { LibScope l; crypto_secretbox_detached(ct, mac, m, n, no, k); v = crypto_secretbox_open_detached(d, ct, mac, n, no, k); }
    c.emit(ct, n); c.emit(mac, 16); c.emit(v);
}
OP(box_xchacha) {
    size_t n = c.in.below(200); unsigned char *m = c.input(n), *s1 = c.input(32), *s2 = c.input(32), *no = c.input(24), *pk1 = c.buf(32), *sk1 = c.buf(32), *pk2 = c.buf(32), *sk2 = c.buf(32), *ct = c.buf(n + 16), *d = c.buf(n); int v;
    { LibScope l; crypto_box_curve25519xchacha20poly1305_seed_keypair(pk1, sk1, s1); crypto_box_curve25519xchacha20poly1305_seed_keypair(pk2, sk2, s2);
      crypto_box_curve25519xchacha20poly1305_easy(ct, m, n, no, pk2, sk1); v = crypto_box_curve25519xchacha20poly1305_open_easy(d, ct, n + 16, no, pk1, sk2); }
    c.emit(ct, n + 16); c.emit(v);
}
OP(sign_convert) {
    unsigned char *seed = c.input(32), *pk = c.buf(32), *sk = c.buf(64), *cpk = c.buf(32), *csk = c.buf(32), *s2 = c.buf(32), *p2 = c.buf(32); int a, b;
    { LibScope l; crypto_sign_seed_keypair(pk, sk, seed); a = crypto_sign_ed25519_pk_to_curve25519(cpk, pk); b = crypto_sign_ed25519_sk_to_curve25519(csk, sk); crypto_sign_ed25519_sk_to_seed(s2, sk); crypto_sign_ed25519_sk_to_pk(p2, sk); }
    c.emit(cpk, 32); c.emit(csk, 32); c.emit(s2, 32); c.emit(p2, 32); c.emit(a * 2 + b);
}
OP(sign_combined) {
    size_t n = c.in.below(150); unsigned char *m = c.input(n), *seed = c.input(32), *pk = c.buf(32), *sk = c.buf(64), *sm = c.buf(n + 64), *d = c.buf(n + 64); unsigned long long sl = 0, dl = 0; int v;
    { LibScope l; crypto_sign_seed_keypair(pk, sk, seed); crypto_sign(sm, &sl, m, n, sk); v = crypto_sign_open(d, &dl, sm, sl, pk); }
    c.emit(sm, (size_t) sl); c.emit(v);
}
OP(ed25519_scalars) {
    unsigned char *a = c.input(64), *b = c.input(32), *r = c.buf(32), *m = c.buf(32), *i = c.buf(32), *q = c.buf(32); int x;
    { LibScope l; crypto_core_ed25519_scalar_reduce(r, a); crypto_core_ed25519_scalar_mul(m, r, b); x = crypto_core_ed25519_scalar_invert(i, r); crypto_scalarmult_ed25519_base_noclamp(q, r); }
    c.emit(r, 32); c.emit(m, 32); c.emit(i, 32); c.emit(q, 32); c.emit(x);
}
OP(ristretto_hash) {
    unsigned char *h = c.input(64), *p = c.buf(32), *q = c.buf(32), *s = c.input(32); int a;
    { LibScope l; crypto_core_ristretto255_from_hash(p, h); a = crypto_scalarmult_ristretto255(q, s, p); }
    c.emit(p, 32); c.emit(q, 32); c.emit(a);
}
OP(h2c) {
    // domain-separation tags of every length class: absent, short, at and beyond the 255-byte limit (hashed first)
    static const size_t CTXLEN[] = {9, 0, 254, 255, 256, 300, 9, 700};
    size_t n = c.in.below(60), cl = CTXLEN[c.in.below(8)]; unsigned char *m = c.input(n), *p = c.buf(32), *q = c.buf(32), *p2 = c.buf(32), *q2 = c.buf(32); int a, b, a2, b2;
    char *ctx = (char *) c.input(cl + 1);
    for (size_t i = 0; i < cl; i++) if (!ctx[i]) ctx[i] = 'x';
    ctx[cl] = 0;
    { LibScope l; a = crypto_core_ed25519_from_string(p, cl == 9 ? "verif-ctx" : ctx, m, n, 1); b = crypto_core_ristretto255_from_string(q, ctx, m, n, 2);
      a2 = crypto_core_ed25519_from_string_ro(p2, ctx, m, n, 2); b2 = crypto_core_ristretto255_from_string_ro(q2, cl ? ctx : nullptr, m, n, 1); }
    c.emit(p, 32); c.emit(q, 32); c.emit(p2, 32); c.emit(q2, 32); c.emit(a * 2 + b + a2 * 4 + b2 * 8);
}
OP(pwhash_str_argon2i) {
    char *s = (char *) c.buf(crypto_pwhash_STRBYTES); const char *pw = "pw-argon2i"; int r, v;
    { LibScope l; r = crypto_pwhash_str_alg(s, pw, strlen(pw), 3, 8192, crypto_pwhash_ALG_ARGON2I13); v = crypto_pwhash_str_verify(s, pw, strlen(pw)); }
    c.emit(s, strlen(s)); c.emit(r * 10 + v);
}
OP(base64_variants) {
    size_t n = c.in.below(50); unsigned char *b = c.input(n), *back = c.buf(n + 1); char *e = (char *) c.buf(sodium_base64_ENCODED_LEN(n, sodium_base64_VARIANT_ORIGINAL)); size_t bl = 0; int r;
    { LibScope l; sodium_bin2base64(e, sodium_base64_ENCODED_LEN(n, sodium_base64_VARIANT_ORIGINAL), b, n, sodium_base64_VARIANT_ORIGINAL); r = sodium_base642bin(back, n + 1, e, strlen(e), " ", &bl, nullptr, sodium_base64_VARIANT_ORIGINAL); }
    c.emit(e, strlen(e)); c.emit(r); c.emit(back, bl);
}
OP(kx_server) {
    unsigned char *s1 = c.input(32), *s2 = c.input(32), *pk1 = c.buf(32), *sk1 = c.buf(32), *pk2 = c.buf(32), *sk2 = c.buf(32), *rx = c.buf(32), *tx = c.buf(32); int a;
    { LibScope l; crypto_kx_seed_keypair(pk1, sk1, s1); crypto_kx_keypair(pk2, sk2); (void) s2; a = crypto_kx_server_session_keys(rx, tx, pk1, sk1, pk2); }
    c.emit(pk2, 32); c.emit(rx, 32); c.emit(tx, 32); c.emit(a);
}

// objects prepared by the main thread before the workers start and then only READ by the library from several
// threads at once (a precomputed AES-GCM key schedule, a precomputed box key).  They are registered as tracked
// memory, so a write into such a "const" object from two threads is seen by the race detector.
struct SharedRO {
    alignas(64) crypto_aead_aes256gcm_state gcm;
    unsigned char box_k[32];
    unsigned char key[32];
    bool ready = false, gcm_ready = false;
};
SharedRO *g_shared = nullptr;
OP(aes256gcm_shared_state) {
    size_t n = 17 + c.in.below(300); unsigned char *m = c.input(n), *no = c.input(12), *ct = c.buf(n + 16), *d = c.buf(n); unsigned long long cl = 0, dl = 0; int v = -3;
    if (g_shared && g_shared->gcm_ready) { LibScope l; crypto_aead_aes256gcm_encrypt_afternm(ct, &cl, m, n, nullptr, 0, nullptr, no, &g_shared->gcm); v = crypto_aead_aes256gcm_decrypt_afternm(d, &dl, nullptr, ct, cl, nullptr, 0, no, &g_shared->gcm); }
    c.emit(ct, (size_t) cl); c.emit(v); c.emit(d, (size_t) dl);
}
OP(box_afternm_shared) {
    size_t n = c.in.below(200); unsigned char *m = c.input(n), *no = c.input(24), *ct = c.buf(n + 16), *d = c.buf(n); int v = -3;
    if (g_shared && g_shared->ready) { LibScope l; crypto_box_easy_afternm(ct, m, n, no, g_shared->box_k); v = crypto_box_open_easy_afternm(d, ct, n + 16, no, g_shared->box_k); }
    c.emit(ct, n + 16); c.emit(v);
}

OP(aegis_detached) {
    size_t n = c.in.below(300), al = c.in.below(30); unsigned char *m = c.input(n), *ad = c.input(al), *k = c.input(32), *no = c.input(32), *ct = c.buf(n), *mac = c.buf(32), *d = c.buf(n); unsigned long long ml = 0; int v, v2;
    { LibScope l; crypto_aead_aegis256_encrypt_detached(ct, mac, &ml, m, n, ad, al, nullptr, no, k); v = crypto_aead_aegis256_decrypt_detached(d, nullptr, ct, n, mac, ad, al, no, k);
      crypto_aead_aegis128l_encrypt_detached(ct, mac, &ml, m, n, ad, al, nullptr, no, k); v2 = crypto_aead_aegis128l_decrypt_detached(d, nullptr, ct, n, mac, ad, al, no, k); }
    c.emit(ct, n); c.emit(mac, 16); c.emit(v * 2 + v2);
}
OP(xchacha_detached) {
    size_t n = c.in.below(700); unsigned char *m = c.input(n), *k = c.input(32), *no = c.input(24), *ct = c.buf(n), *mac = c.buf(16), *d = c.buf(n); unsigned long long ml = 0; int v;
    { LibScope l; crypto_aead_xchacha20poly1305_ietf_encrypt_detached(ct, mac, &ml, m, n, nullptr, 0, nullptr, no, k); v = crypto_aead_xchacha20poly1305_ietf_decrypt_detached(d, nullptr, ct, n, mac, nullptr, 0, no, k); }
    c.emit(ct, n); c.emit(mac, 16); c.emit(v);
}
OP(stream_xor_ic) {
    size_t n = c.in.below(900); unsigned char *m = c.input(n), *k = c.input(32), *no = c.input(24), *o = c.buf(n), *o2 = c.buf(n), *o3 = c.buf(n); uint64_t ic = c.in.below(1000);
    { LibScope l; crypto_stream_chacha20_xor_ic(o, m, n, no, ic, k); crypto_stream_chacha20_ietf_xor_ic(o2, m, n, no, (uint32_t) ic, k); crypto_stream_xchacha20_xor_ic(o3, m, n, no, ic, k); }
    c.emit(o, n); c.emit(o2, n); c.emit(o3, n);
}
OP(salsa20_xor_ic) {
    size_t n = c.in.below(900); unsigned char *m = c.input(n), *k = c.input(32), *no = c.input(24), *o = c.buf(n), *o2 = c.buf(n); uint64_t ic = c.in.below(1000);
    { LibScope l; crypto_stream_salsa20_xor_ic(o, m, n, no, ic, k); crypto_stream_xsalsa20_xor_ic(o2, m, n, no, ic, k); }
    c.emit(o, n); c.emit(o2, n);
}
OP(box_detached) {
    size_t n = c.in.below(200); unsigned char *m = c.input(n), *s1 = c.input(32), *no = c.input(24), *pk = c.buf(32), *sk = c.buf(32), *ct = c.buf(n), *mac = c.buf(16), *d = c.buf(n); int v;
    { LibScope l; crypto_box_seed_keypair(pk, sk, s1); crypto_box_detached(ct, mac, m, n, no, pk, sk); v = crypto_box_open_detached(d, ct, mac, n, no, pk, sk); }
    c.emit(ct, n); c.emit(mac, 16); c.emit(v);
}
OP(sign_ed25519ph) {
    size_t n = c.in.below(300); unsigned char *m = c.input(n), *seed = c.input(32), *pk = c.buf(32), *sk = c.buf(64), *sig = c.buf(64); int v;
    crypto_sign_ed25519ph_state *st = (crypto_sign_ed25519ph_state *) c.buf(sizeof(crypto_sign_ed25519ph_state));
    { LibScope l; crypto_sign_ed25519_seed_keypair(pk, sk, seed); crypto_sign_ed25519ph_init(st); crypto_sign_ed25519ph_update(st, m, n); crypto_sign_ed25519ph_final_create(st, sig, nullptr, sk);
      crypto_sign_ed25519ph_init(st); crypto_sign_ed25519ph_update(st, m, n); v = crypto_sign_ed25519ph_final_verify(st, sig, pk); }
    c.emit(sig, 64); c.emit(v);
}
OP(ristretto_arith) {
    unsigned char *h1 = c.input(64), *h2 = c.input(64), *a = c.input(64), *p = c.buf(32), *q = c.buf(32), *r = c.buf(32), *sr = c.buf(32), *t = c.buf(32), *u = c.buf(32); int x, y, z;
    { LibScope l; crypto_core_ristretto255_from_hash(p, h1); crypto_core_ristretto255_from_hash(q, h2); x = crypto_core_ristretto255_add(r, p, q); y = crypto_core_ristretto255_sub(t, r, q);
      crypto_core_ristretto255_scalar_reduce(sr, a); z = crypto_scalarmult_ristretto255_base(u, sr); }
    c.emit(r, 32); c.emit(t, 32); c.emit(u, 32); c.emit(x * 4 + y * 2 + z);
}
OP(ed25519_point_arith) {
    unsigned char *h1 = c.input(32), *h2 = c.input(32), *p = c.buf(32), *q = c.buf(32), *r = c.buf(32), *t = c.buf(32), *s1 = c.input(32), *n1 = c.buf(32), *c1 = c.buf(32); int x, y, v;
    { LibScope l; crypto_core_ed25519_from_uniform(p, h1); crypto_core_ed25519_from_uniform(q, h2); x = crypto_core_ed25519_add(r, p, q); y = crypto_core_ed25519_sub(t, r, q); v = crypto_core_ed25519_is_valid_point(t);
      crypto_core_ed25519_scalar_negate(n1, s1); crypto_core_ed25519_scalar_complement(c1, s1); }
    c.emit(r, 32); c.emit(t, 32); c.emit(n1, 32); c.emit(c1, 32); c.emit(x * 4 + y * 2 + v);
}
OP(verify_and_hex) {
    unsigned char *a = c.input(64), *b = c.buf(64); char *hex = (char *) c.buf(129); int v16, v32, v64;
    memcpy(b, a, 64); if (c.in.chance(1, 2)) b[c.in.below(64)] ^= 1;
    { LibScope l; v16 = crypto_verify_16(a, b); v32 = crypto_verify_32(a, b); v64 = crypto_verify_64(a, b); sodium_bin2hex(hex, 129, a, 64); sodium_stackzero(256); }
    c.emit(v16 * 4 + v32 * 2 + v64); c.emit(hex, 128);
}
OP(secretstream_rekey) {
    size_t n = c.in.below(100); unsigned char *m = c.input(n), *k = c.input(32), *hdr = c.buf(24), *ct = c.buf(n + 17), *ct2 = c.buf(n + 17), *d = c.buf(n); int v;
    crypto_secretstream_xchacha20poly1305_state *st = (crypto_secretstream_xchacha20poly1305_state *) c.buf(sizeof(crypto_secretstream_xchacha20poly1305_state)), *st2 = (crypto_secretstream_xchacha20poly1305_state *) c.buf(sizeof(crypto_secretstream_xchacha20poly1305_state));
    { LibScope l; crypto_secretstream_xchacha20poly1305_init_push(st, hdr, k); crypto_secretstream_xchacha20poly1305_push(st, ct, nullptr, m, n, nullptr, 0, 2); crypto_secretstream_xchacha20poly1305_rekey(st);
      crypto_secretstream_xchacha20poly1305_push(st, ct2, nullptr, m, n, nullptr, 0, 0);
      crypto_secretstream_xchacha20poly1305_init_pull(st2, hdr, k); crypto_secretstream_xchacha20poly1305_pull(st2, d, nullptr, nullptr, ct, n + 17, nullptr, 0); crypto_secretstream_xchacha20poly1305_rekey(st2);
      v = crypto_secretstream_xchacha20poly1305_pull(st2, d, nullptr, nullptr, ct2, n + 17, nullptr, 0); }
    c.emit(hdr, 24); c.emit(ct2, n + 17); c.emit(v);
}
OP(deterministic_rng) { size_t n = c.in.below(700); unsigned char *seed = c.input(32), *o = c.buf(n); { LibScope l; randombytes_buf_deterministic(o, n, seed); } c.emit(o, n); }
OP(scrypt_str) {
    char *s = (char *) c.buf(crypto_pwhash_scryptsalsa208sha256_STRBYTES); const char *pw = "scrypt pw"; int r, v, nr;
    { LibScope l; r = crypto_pwhash_scryptsalsa208sha256_str(s, pw, strlen(pw), crypto_pwhash_scryptsalsa208sha256_OPSLIMIT_MIN, crypto_pwhash_scryptsalsa208sha256_MEMLIMIT_MIN);
      v = crypto_pwhash_scryptsalsa208sha256_str_verify(s, pw, strlen(pw)); nr = crypto_pwhash_scryptsalsa208sha256_str_needs_rehash(s, crypto_pwhash_scryptsalsa208sha256_OPSLIMIT_MIN, crypto_pwhash_scryptsalsa208sha256_MEMLIMIT_MIN); }
    c.emit(s, strlen(s)); c.emit(r * 100 + v * 10 + nr);
}
OP(kdf_hkdf_state) {
    size_t n = c.in.below(120), cut = c.in.below(n + 1); unsigned char *ikm = c.input(n), *salt = c.input(20), *prk = c.buf(32);
    crypto_kdf_hkdf_sha256_state *st = (crypto_kdf_hkdf_sha256_state *) c.buf(sizeof(crypto_kdf_hkdf_sha256_state));
    { LibScope l; crypto_kdf_hkdf_sha256_extract_init(st, salt, 20); crypto_kdf_hkdf_sha256_extract_update(st, ikm, cut); crypto_kdf_hkdf_sha256_extract_update(st, ikm + cut, n - cut); crypto_kdf_hkdf_sha256_extract_final(st, prk); }
    c.emit(prk, 32);
}

// the constant-time helpers on caller buffers that END EXACTLY at an inaccessible page (guarded allocations of the
// exact size): an access past the end -- also one made from inline assembly, which no instrumentation sees -- faults
OP(helpers_on_guarded_buffers) {
    static const size_t sizes[] = {1, 4, 8, 12, 16, 24, 32, 64};
    size_t n = sizes[c.in.below(sizeof sizes / sizeof sizes[0])];
    unsigned char *src = c.input(n), *src2 = c.input(n); int r1 = 0, r2 = 0, z = 0; unsigned char keep[64];
    bool ok;
    { LibScope l;
      unsigned char *a = (unsigned char *) sodium_malloc(n), *b = (unsigned char *) sodium_malloc(n);
      ok = a && b;
      if (ok) {
          memcpy(a, src, n); memcpy(b, src2, n);
          sodium_increment(a, n); sodium_add(a, b, n); sodium_sub(a, b, n); r1 = sodium_compare(a, b, n); r2 = sodium_memcmp(a, b, n); z = sodium_is_zero(b, n);
          memcpy(keep, a, n);
          sodium_memzero(b, n);
      }
      sodium_free(a); sodium_free(b); }
    c.emit(ok); if (ok) { c.emit(keep, n); c.emit(r1 * 100 + r2 * 10 + z); }
}

// a guarded allocation made by one thread and used/freed by another (handed over through an application-level
// mailbox whose put/take are a release/acquire pair).  Results are constants: whether a take finds something depends
// on the schedule.
struct Mailbox { std::vector<std::pair<void *, size_t>> items; } g_mailbox;
OP(guarded_put) {
    size_t n = 1 + c.in.below(5000); void *p;
    { LibScope l; p = sodium_malloc(n); if (p) memset(p, 0x5a, n); }
    if (p) { g_mailbox.items.push_back({p, n}); if (tls_tid >= 0) simrt::sync_release(&g_mailbox, tls_tid); RT.counters["probe.guarded_allocation_handed_over"]++; }
    c.emit(1);
}
OP(guarded_take) {
    if (!g_mailbox.items.empty()) {
        if (tls_tid >= 0) simrt::sync_acquire(&g_mailbox, tls_tid);
        auto it = g_mailbox.items.back(); g_mailbox.items.pop_back();
        unsigned char *p = (unsigned char *) it.first; bool ok;
        { LibScope l; ok = p[0] == 0x5a && p[it.second - 1] == 0x5a; sodium_mprotect_readonly(p); ok = ok && p[it.second / 2] == 0x5a; sodium_mprotect_readwrite(p); p[0] = 1; sodium_free(p); }
        if (!ok) simrt::fatal("handed-over-allocation-corrupt", "guarded_take", "a guarded allocation handed from one thread to another lost its contents");
        RT.counters["probe.guarded_allocation_freed_by_other_thread"]++;
    }
    c.emit(1);
}

static void verif_misuse_handler(void) {}
// public API that is rarely called but must be as thread-safe as the rest: installing the (same) misuse handler takes
// the library lock; stir/close of the installed random source touch only per-thread state on this platform
OP(misuse_handler) { int r; { LibScope l; r = sodium_set_misuse_handler(verif_misuse_handler); } c.emit(r); }
OP(rng_stir_close) {
    unsigned char *b = c.buf(24); int r;
    // (on a kernel without getrandom() the source keeps a shared descriptor and close() releases it: a teardown call that,
    // like freeing a buffer in use, is not made concurrently with users of the source -- only stir is exercised there)
    { LibScope l; randombytes_stir(); randombytes_buf(b, 12); r = g_no_getrandom ? 0 : randombytes_close(); randombytes_buf(b + 12, 12); }
    c.emit(b, 24); c.emit(r);
}

const OpDesc OPS[] = {
    {"sha256", op_sha256}, {"sha512", op_sha512}, {"sha256_multi", op_sha256_multi}, {"generichash", op_generichash}, {"generichash_multi", op_generichash_multi},
    {"auth", op_auth}, {"auth_hmacsha512", op_auth_hmacsha512}, {"shorthash", op_shorthash}, {"onetimeauth", op_onetimeauth}, {"stream_chacha20", op_stream_chacha20},
    {"stream_xsalsa20_xor", op_stream_xsalsa20_xor}, {"stream_salsa20", op_stream_salsa20}, {"aead_xchacha", op_aead_xchacha}, {"aead_chacha_detached", op_aead_chacha_detached},
    {"aead_aes256gcm", op_aead_aes256gcm}, {"aead_aegis128l", op_aead_aegis128l}, {"aead_aegis256", op_aead_aegis256}, {"secretbox", op_secretbox}, {"box", op_box},
    {"box_beforenm", op_box_beforenm}, {"box_keypair_seal", op_box_keypair_seal}, {"sign", op_sign}, {"sign_multi", op_sign_multi}, {"scalarmult", op_scalarmult},
    {"ed25519_core", op_ed25519_core}, {"ristretto_random", op_ristretto_random}, {"ed25519_random", op_ed25519_random}, {"kx", op_kx}, {"kdf", op_kdf}, {"hkdf", op_hkdf},
    {"secretstream", op_secretstream}, {"pwhash_argon2id", op_pwhash_argon2id}, {"pwhash_argon2i", op_pwhash_argon2i}, {"pwhash_str", op_pwhash_str}, {"scrypt_ll", op_scrypt_ll},
    {"codecs", op_codecs}, {"padding", op_padding}, {"utils", op_utils}, {"randombytes", op_randombytes}, {"randombytes_small", op_randombytes_small}, {"keygens", op_keygens},
    {"guarded_alloc", op_guarded_alloc}, {"guarded_allocarray", op_guarded_allocarray}, {"mlock", op_mlock}, {"runtime_info", op_runtime_info}, {"misuse_handler", op_misuse_handler}, {"rng_stir_close", op_rng_stir_close},
    {"aead_chacha_orig", op_aead_chacha_orig}, {"aes256gcm_state", op_aes256gcm_state}, {"stream_xchacha20", op_stream_xchacha20}, {"stream_salsa_variants", op_stream_salsa_variants},
    {"hchacha_hsalsa", op_hchacha_hsalsa}, {"hmacsha256_multi", op_hmacsha256_multi}, {"sha512_multi", op_sha512_multi}, {"blake2b_salt_personal", op_blake2b_salt_personal},
    {"onetimeauth_multi", op_onetimeauth_multi}, {"siphashx24", op_siphashx24}, {"hkdf_sha512", op_hkdf_sha512}, {"secretbox_detached", op_secretbox_detached}, {"box_xchacha", op_box_xchacha},
    {"sign_convert", op_sign_convert}, {"sign_combined", op_sign_combined}, {"ed25519_scalars", op_ed25519_scalars}, {"ristretto_hash", op_ristretto_hash}, {"h2c", op_h2c},
    {"pwhash_str_argon2i", op_pwhash_str_argon2i}, {"base64_variants", op_base64_variants}, {"kx_server", op_kx_server},
    {"helpers_on_guarded_buffers", op_helpers_on_guarded_buffers}, {"guarded_put", op_guarded_put}, {"guarded_take", op_guarded_take},
    {"aegis_detached", op_aegis_detached}, {"xchacha_detached", op_xchacha_detached}, {"stream_xor_ic", op_stream_xor_ic}, {"salsa20_xor_ic", op_salsa20_xor_ic}, {"box_detached", op_box_detached},
    {"sign_ed25519ph", op_sign_ed25519ph}, {"ristretto_arith", op_ristretto_arith}, {"ed25519_point_arith", op_ed25519_point_arith}, {"verify_and_hex", op_verify_and_hex},
    {"secretstream_rekey", op_secretstream_rekey}, {"deterministic_rng", op_deterministic_rng}, {"scrypt_str", op_scrypt_str}, {"kdf_hkdf_state", op_kdf_hkdf_state},
    {"aes256gcm_shared_state", op_aes256gcm_shared_state}, {"box_afternm_shared", op_box_afternm_shared},
};
const size_t NOPS = sizeof OPS / sizeof OPS[0];
// ops whose results depend on the random source (weighted up: the default generator and guarded allocation are named by the property)
const char *RNG_HEAVY[] = {"randombytes", "randombytes_small", "keygens", "guarded_alloc", "box_keypair_seal", "ristretto_random", "ed25519_random", "secretstream", "pwhash_str", "sign_multi"};

// ---------------- plan ----------------
enum RngCfg { R_DEFAULT = 0, R_INTERNAL = 1, R_SCRIPTED = 2 };
const char *rng_name[3] = {"default_sysrandom", "internal", "scripted"};
struct Op { int thread = 0; int op = 0; };
struct PlanT {
    Json pk;
    uint64_t content_seed = 0, sched_seed = 0;
    int nthreads = 2, strategy = simrt::S_RANDOM, rng = R_DEFAULT;
    unsigned pct_depth = 2;
    bool preinit = false; // main calls sodium_init before the threads start (the "after initialisation" clause on its own)
    bool inline_main = false;  // thread 0 is the main thread; the others come into existence when first scheduled
    bool shared_arena = false;  // all threads' caller buffers packed into one tracked block
    unsigned env_fault_pct = 0; // getrandom EINTR/EAGAIN, mlock ENOMEM (per-thread deterministic)
    unsigned prior_init_calls = 0; // the main thread has called sodium_init() this many times before the threads race through it (0: the threads' calls are the first)
    unsigned entropy_dies_after = 0; // 0 never; k: each thread's k-th and later getrandom()/getentropy() calls outside sodium_init() fail (bit 8: EPERM instead of ENOSYS)
    bool no_getrandom = false;  // kernel without getrandom()/getentropy(): the random sources read a simulated /dev/urandom
    bool frozen_clock = false;  // the simulated clock stands still: all threads read the same instant
    bool sysconf_fails = false; // environment fault: sysconf(_SC_PAGESIZE) fails inside sodium_init (the library falls back to its default)
    std::vector<std::pair<uint64_t, int>> sched; // strategy "explicit": deviations (decision index, thread) from run-to-completion order
    std::vector<Op> ops;
};

// what one execution (scheduled or reference) produced
struct Outcome {
    std::vector<int> init_ret;                 // per thread (-99 = not called)
    std::vector<std::vector<uint64_t>> results; // per thread, per op
    uint64_t pagesize_queries = 0, init_entropy_calls = 0, init_entropy_bytes = 0, init_stirs = 0, init_src_bytes = 0;
    uint64_t first[5] = {0, 0, 0, 0, 0}; // the same five at the return of the first sodium_init() call
    int first_fds = 0, end_fds = 0;      // simulated descriptors open at that moment / when every thread has finished
    uint64_t first_keys = 0, end_keys = 0; // thread-specific-data keys created by the library by then / by the end
    int winner = -1;
    Json to_json() const {
        Json j = Json::object();
        Json ir = Json::array(); for (int v : init_ret) ir.push(v); j["init_ret"] = ir;
        Json rs = Json::array();
        for (auto &t : results) { Json a = Json::array(); for (uint64_t v : t) a.push(hex64(v)); rs.push(a); }
        j["results"] = rs;
        j["pq"] = pagesize_queries; j["ic"] = init_entropy_calls; j["ib"] = init_entropy_bytes; j["is"] = init_stirs; j["isb"] = init_src_bytes; j["winner"] = winner;
        Json f = Json::array(); for (int i = 0; i < 5; i++) f.push(first[i]); j["first"] = f; j["first_fds"] = first_fds; j["end_fds"] = end_fds; j["first_keys"] = first_keys; j["end_keys"] = end_keys;
        return j;
    }
    static Outcome from_json(const Json &j) {
        Outcome o;
        for (auto &v : j.at("init_ret").a) o.init_ret.push_back((int) v.i64());
        for (auto &t : j.at("results").a) { std::vector<uint64_t> r; for (auto &v : t.a) r.push_back(strtoull(v.str().c_str(), nullptr, 16)); o.results.push_back(r); }
        o.pagesize_queries = j.at("pq").u64(); o.init_entropy_calls = j.at("ic").u64(); o.init_entropy_bytes = j.at("ib").u64(); o.init_stirs = j.at("is").u64(); o.init_src_bytes = j.at("isb").u64();
        for (size_t i = 0; i < 5 && i < j.at("first").a.size(); i++) o.first[i] = j.at("first").a[i].u64();
        o.first_fds = (int) j.at("first_fds").i64(); o.end_fds = (int) j.at("end_fds").i64(); o.first_keys = j.at("first_keys").u64(); o.end_keys = j.at("end_keys").u64();
        o.winner = (int) j.at("winner").i64(-1);
        return o;
    }
};

const PlanT *g_plan = nullptr;
Outcome *g_out = nullptr;
std::vector<std::vector<int>> g_thread_ops;

void thread_body(int tid) {
    const PlanT &p = *g_plan;
    if (!p.preinit) {
        ENV.in_init[tid] = true;
        int r;
        { LibScope l; r = sodium_init(); }
        ENV.in_init[tid] = false;
        ENV.snapshot_first();
        g_out->init_ret[(size_t) tid] = r;
        simrt::yield_point(simrt::Y_OPBOUNDARY, 0);
    }
    for (size_t i = 0; i < g_thread_ops[(size_t) tid].size(); i++) {
        int opi = g_thread_ops[(size_t) tid][i];
        Ctx c;
        c.tid = tid; c.seed = mix64(p.content_seed, mix64((uint64_t) tid, i));
        c.in.seed(c.seed);
        OPS[(size_t) opi % NOPS].fn(c);
        g_out->results[(size_t) tid].push_back(c.out.value());
        simrt::yield_point(simrt::Y_OPBOUNDARY, i + 1);
    }
}

void install_hooks() {
    simos_hooks.getrandom_ = h_getrandom; simos_hooks.getentropy_ = h_getentropy; simos_hooks.gettimeofday_ = h_gettimeofday; simos_hooks.getpid_ = h_getpid;
    simos_hooks.sysconf_ = h_sysconf; simos_hooks.open_ = h_open; simos_hooks.read_ = h_read; simos_hooks.close_ = h_close; simos_hooks.fstat_ = h_fstat; simos_hooks.fcntl_ = h_fcntl; simos_hooks.poll_ = h_poll;
    simos_hooks.malloc_ = h_malloc; simos_hooks.calloc_ = h_calloc; simos_hooks.free_ = h_free; simos_hooks.posix_memalign_ = h_posix_memalign;
    simos_hooks.mmap_ = h_mmap; simos_hooks.munmap_ = h_munmap; simos_hooks.mprotect_ = h_mprotect; simos_hooks.mlock_ = h_mlock; simos_hooks.munlock_ = h_munlock; simos_hooks.madvise_ = h_madvise;
    simos_hooks.raise_ = h_raise; simos_hooks.abort_ = h_abort; simos_hooks.assert_fail_ = h_assert_fail;
    simos_hooks.mutex_lock_ = simrt::hook_mutex_lock; simos_hooks.mutex_unlock_ = simrt::hook_mutex_unlock; simos_hooks.mutex_trylock_ = simrt::hook_mutex_trylock; simos_hooks.mutex_timedlock_ = simrt::hook_mutex_timedlock;
    simos_hooks.nanosleep_ = simrt::hook_nanosleep;
    simos_hooks.sigmask_ = h_sigmask;
    simos_hooks.process_state_ = h_process_state; simos_hooks.getrlimit_ = h_getrlimit; simos_hooks.setrlimit_ = h_setrlimit;
}

// one complete execution of the plan in THIS process (which must not have touched libsodium yet)
Outcome run_plan(const PlanT &p, int strategy, const std::vector<int> &seq_order, bool detect) {
    Outcome out;
    out.init_ret.assign((size_t) p.nthreads, -99);
    out.results.assign((size_t) p.nthreads, {});
    g_plan = &p; g_out = &out;
    g_thread_ops.assign((size_t) p.nthreads, {});
    for (auto &o : p.ops) g_thread_ops[(size_t) (o.thread % p.nthreads)].push_back(o.op);
    ENV.reset(mix64(p.content_seed, 0xe27));
    g_sysconf_fails = p.sysconf_fails; g_sysconf_failed = 0; g_frozen_clock = p.frozen_clock; g_frozen_clock_reads = 0;
    g_rl_memlock.rlim_cur = 65536; g_rl_memlock.rlim_max = RLIM_INFINITY;
    g_env_fault_pct = p.env_fault_pct; memset(g_env_calls, 0, sizeof g_env_calls); g_eintr_fired = g_mlock_refused = 0;
    g_entropy_dies_after = p.entropy_dies_after & 0xff; g_entropy_dies_errno = (p.entropy_dies_after & 0x100) ? EPERM : ENOSYS;
    memset(g_entropy_calls_outside_init, 0, sizeof g_entropy_calls_outside_init); g_entropy_dead_fired = 0;
    g_no_getrandom = p.no_getrandom; for (auto &f : g_fds) f = SimFd(); g_dev_reads = g_dev_opens = 0; ENV.count_fds = open_sim_fds; g_tsd_keys_created = 0; ENV.keys_counter = &g_tsd_keys_created;
    g_script_seed = mix64(p.content_seed, 0x5c21); memset(g_script_off, 0, sizeof g_script_off);
    if (p.rng == R_INTERNAL) randombytes_set_implementation(&randombytes_internal_implementation);
    else if (p.rng == R_SCRIPTED) randombytes_set_implementation(&g_scripted_mt);
    if (p.preinit) {
        ENV.in_init[MAXTHREADS] = true;
        { LibScope l; if (sodium_init() != 0) { fprintf(stderr, "pre-init failed\n"); _exit(3); } }
        ENV.in_init[MAXTHREADS] = false;
        ENV.snapshot_first();
    } else if (p.prior_init_calls) {
        // a long-lived process: the initialiser has been called many times before (every component calls it defensively)
        ENV.in_init[MAXTHREADS] = true;
        { LibScope l; for (unsigned q = 0; q < p.prior_init_calls; q++) if (sodium_init() != (q ? 1 : 0)) { fprintf(stderr, "prior sodium_init() call %u returned an unexpected value\n", q); _exit(3); } }
        ENV.in_init[MAXTHREADS] = false;
        // the counters must describe the threads' calls only; the first-call snapshot is taken by the first of them
        ENV.init_pagesize_queries = ENV.init_entropy_calls = ENV.init_entropy_bytes = ENV.init_stirs = ENV.init_src_bytes = 0;
    }
    RT.est_steps = 80 * (uint64_t) p.nthreads + 250 * (uint64_t) p.ops.size() + 50; // where PCT places its priority-change points
    RT.reset(p.nthreads, p.sched_seed, strategy, p.pct_depth);
    RT.mark = ENV.in_init;
    g_mailbox.items.clear();
    g_arena.on = p.shared_arena && detect;
    if (g_arena.on) {
        static unsigned char *mem = nullptr;
        const size_t CAP = 192u << 10;
        if (!mem) mem = (unsigned char *) malloc(CAP);
        g_arena.base = mem; g_arena.cap = CAP; g_arena.used = 0;
        simrt::register_block((uintptr_t) mem, CAP, 'A', true);
    }
    if (p.preinit) {
        // shared read-only objects (only meaningful once the library is initialised)
        static SharedRO *storage = nullptr;
        if (!storage) { void *mem = nullptr; if (posix_memalign(&mem, 64, sizeof(SharedRO)) != 0) _exit(3); storage = new (mem) SharedRO(); }
        g_shared = storage;
        Rng sr(mix64(p.content_seed, 0x5a4ed));
        unsigned char pk[32], sk[32], seed[32];
        sr.fill(g_shared->key, 32); sr.fill(seed, 32);
        { LibScope l;
          crypto_box_seed_keypair(pk, sk, seed); crypto_box_beforenm(g_shared->box_k, pk, sk);
          g_shared->gcm_ready = crypto_aead_aes256gcm_is_available() && crypto_aead_aes256gcm_beforenm(&g_shared->gcm, g_shared->key) == 0; }
        g_shared->ready = true;
        simrt::register_block((uintptr_t) g_shared, sizeof(SharedRO), 'S', true);
    } else g_shared = nullptr;
    RT.main_inline = p.inline_main && !p.preinit && !p.prior_init_calls && strategy != simrt::S_SEQUENTIAL; // the reference runs the winner first, whoever that was
    RT.seq_order = seq_order;
    RT.detect_races = detect;
    RT.trace_in = strategy == simrt::S_TRACE ? p.sched : std::vector<std::pair<uint64_t, int>>();
    simrt::run_threads(p.nthreads, thread_body);
    out.pagesize_queries = ENV.init_pagesize_queries; out.init_entropy_calls = ENV.init_entropy_calls; out.init_entropy_bytes = ENV.init_entropy_bytes;
    out.init_stirs = ENV.init_stirs; out.init_src_bytes = ENV.init_src_bytes;
    memcpy(out.first, ENV.first, sizeof out.first);
    out.first_fds = ENV.first_fds; out.end_fds = open_sim_fds(); out.first_keys = ENV.first_keys; out.end_keys = g_tsd_keys_created;
    for (int i = 0; i < p.nthreads; i++) if (out.init_ret[(size_t) i] == 0 && out.winner < 0) out.winner = i;
    return out;
}

struct C19 {
    typedef PlanT Plan;
    static const char *property() { return "C19"; }
    static const char *name() { return "c19_threads"; }
    static const char *level() { return "exploration"; }
    static const char *rule() {
        return "seeded plans: N in 2..16 real threads, each calling sodium_init() and then 0-12 operations drawn from an 86-entry table covering every API family (no barrier "
               "between init and workload), under RNG configuration {default sysrandom over simulated getrandom, internal, scripted} and lock variant " C19_LOCK_VARIANT
               ". Exactly one thread is runnable at a time; a seeded scheduler (random walk / PCT depth 1-4 / loser-first / coarse) decides at every instrumented access to "
               "tracked memory, every lock/unlock, atomic and wrapped system call. Oracles: own vector-clock happens-before race detector over the TSan compiler ABI "
               "(data segment + library-allocated blocks), deadlock/livelock/assert/abort, init return values (one 0, rest 1), environment-level exactly-once "
               "(page-size queries, entropy requests, stirs equal the sequential run's), and per-thread per-operation result digests equal to a sequential reference "
               "execution. non-trivial = at least one preemption happened; distinct = distinct interleaving digests (thread, event kind, relative address at every yield point)";
    }
    static size_t batch_size(bool) { return 1; }
    static uint64_t default_runs(bool thorough) { return thorough ? 5000000 : 400000; }
    static double default_time(bool thorough) { return thorough ? 500 : 22; }
    static void selftest() { RT.init_static(); }
    static Json pknobs(uint64_t seed, uint64_t batch, bool) {
        Rng r(mix64(seed, batch), "pknobs");
        Json pk = Json::object();
        pk["cpu_disable"] = (unsigned) (cpu_masks()[r.below(cpu_masks().size())] | NO_RDRAND);
        pk["lock_variant"] = C19_LOCK_VARIANT;
        return pk;
    }
    static void proc_setup(const Json &pk) {
        _sodium_verif_cpu_disable_mask = (unsigned) pk.at("cpu_disable").u64() | NO_RDRAND;
        install_hooks();
    }

    static Plan generate(uint64_t seed, uint64_t run, const Json &pk, bool thorough) {
        uint64_t rs = mix64(seed, run);
        Rng k(rs, "knobs"), o(rs, "ops");
        Plan p;
        p.pk = pk;
        p.content_seed = mix64(rs, 0xc19); p.sched_seed = mix64(rs, 0x5ced);
        unsigned c = (unsigned) k.below(10);
        p.nthreads = c < 4 ? 2 : c < 6 ? 3 : c < 8 ? 4 : c < 9 ? (int) k.range(5, 8) : (int) k.range(9, 16);
        p.strategy = (int) k.range(1, simrt::S_COARSE);
        p.pct_depth = (unsigned) k.range(1, 4);
        unsigned rc = (unsigned) k.below(10);
        p.rng = rc < 6 ? R_DEFAULT : rc < 8 ? R_INTERNAL : R_SCRIPTED;
        p.preinit = k.chance(1, 5);
        p.inline_main = !p.preinit && k.chance(1, 2);
        // (not with the main thread as thread 0: its thread-local generator state would already be keyed by those calls, which the reference's thread 0, a fresh thread, cannot mirror)
        p.prior_init_calls = (!p.preinit && !p.inline_main && k.chance(1, 4)) ? (unsigned) k.pick<unsigned>({1, 2, 255, 256, 257, 65535, 65536, 65537, 131072}) : 0;
        p.sysconf_fails = k.chance(1, 8);
        p.no_getrandom = k.chance(1, 4);
        p.entropy_dies_after = (!p.no_getrandom && p.rng != R_SCRIPTED && k.chance(1, 8)) ? (unsigned) k.range(1, 6) | (k.chance(1, 2) ? 0x100u : 0u) : 0;
        p.shared_arena = k.chance(1, 2);
        p.env_fault_pct = k.chance(1, 2) ? 0 : (unsigned) k.range(5, 40);
        p.frozen_clock = k.chance(1, 2);
        size_t per_thread_max = p.nthreads > 8 ? 3 : p.nthreads > 4 ? 6 : (thorough ? 12 : 8);
        for (int t = 0; t < p.nthreads; t++) {
            size_t n = (size_t) o.below(per_thread_max + 1);
            for (size_t i = 0; i < n; i++) {
                Op op; op.thread = t;
                if (o.chance(2, 5)) {
                    const char *nm = RNG_HEAVY[o.below(sizeof RNG_HEAVY / sizeof RNG_HEAVY[0])];
                    for (size_t q = 0; q < NOPS; q++) if (!strcmp(OPS[q].name, nm)) op.op = (int) q;
                } else op.op = (int) o.below(NOPS);
                if (!strcmp(OPS[(size_t) op.op].name, "scrypt_str") && !o.chance(1, 5)) op.op = (int) o.below(NOPS - 2); // 1 MiB of tracked memory per call: keep it rare
                bool is_shared = !strncmp(OPS[(size_t) op.op].name + (strlen(OPS[(size_t) op.op].name) > 6 ? 0 : 0), "aes256gcm_shared", 16) || !strcmp(OPS[(size_t) op.op].name, "box_afternm_shared");
                if (is_shared && !p.preinit) op.op = (int) o.below(NOPS - 2); // shared read-only objects exist only in pre-initialised plans
                if (p.preinit && o.chance(1, 4)) { op.op = (int) (NOPS - 2 + o.below(2)); }
                p.ops.push_back(op);
            }
        }
        // interleave the flat list so that ddmin chunks cut across threads
        for (size_t i = p.ops.size(); i > 1; i--) std::swap(p.ops[i - 1], p.ops[o.below(i)]);
        return p;
    }

    static Json to_json(const Plan &p) {
        Json j = Json::object();
        j["knobs"] = p.pk; j["content_seed"] = p.content_seed; j["sched_seed"] = p.sched_seed; j["threads"] = p.nthreads;
        j["strategy"] = simrt::strategy_name[p.strategy]; j["pct_depth"] = p.pct_depth; j["rng"] = rng_name[p.rng]; j["preinit"] = p.preinit; j["inline_main"] = p.inline_main; j["sysconf_fails"] = p.sysconf_fails; j["env_fault_pct"] = p.env_fault_pct; j["shared_arena"] = p.shared_arena;
        j["kernel"] = p.no_getrandom ? "no_getrandom_dev_urandom" : "getrandom";
        j["entropy_dies_after"] = p.entropy_dies_after; j["prior_init_calls"] = p.prior_init_calls; j["frozen_clock"] = p.frozen_clock;
        if (p.strategy == simrt::S_TRACE) {
            Json sc = Json::array();
            for (auto &d : p.sched) { Json e = Json::array(); e.push(d.first); e.push(d.second); sc.push(e); }
            j["schedule_deviations"] = sc; // [decision index, thread]: everything else is run-to-completion in thread order
        }
        Json ops = Json::array();
        for (auto &o : p.ops) { Json q = Json::object(); q["t"] = o.thread; q["op"] = OPS[(size_t) o.op % NOPS].name; ops.push(q); }
        j["ops"] = ops;
        return j;
    }
    static Plan from_json(const Json &j) {
        Plan p;
        p.pk = j.at("knobs"); p.content_seed = j.at("content_seed").u64(); p.sched_seed = j.at("sched_seed").u64(); p.nthreads = (int) j.at("threads").i64(2);
        if (p.nthreads < 1) p.nthreads = 1;
        if (p.nthreads > MAXTHREADS) p.nthreads = MAXTHREADS;
        for (int i = 0; i < simrt::S_NSTRATEGIES; i++) if (j.at("strategy").str() == simrt::strategy_name[i]) p.strategy = i;
        p.pct_depth = (unsigned) j.at("pct_depth").u64(2);
        for (int i = 0; i < 3; i++) if (j.at("rng").str() == rng_name[i]) p.rng = i;
        p.preinit = j.at("preinit").boolean(); p.inline_main = j.at("inline_main").boolean(); p.sysconf_fails = j.at("sysconf_fails").boolean(); p.env_fault_pct = (unsigned) j.at("env_fault_pct").u64(); p.shared_arena = j.at("shared_arena").boolean();
        p.no_getrandom = j.at("kernel").str() == "no_getrandom_dev_urandom";
        p.entropy_dies_after = (unsigned) j.at("entropy_dies_after").u64(); p.prior_init_calls = (unsigned) j.at("prior_init_calls").u64(); p.frozen_clock = j.at("frozen_clock").boolean();
        for (auto &d : j.at("schedule_deviations").a) if (d.a.size() == 2) p.sched.push_back({d.a[0].u64(), (int) d.a[1].i64()});
        for (auto &q : j.at("ops").a) {
            Op o; o.thread = (int) q.at("t").i64();
            for (size_t k = 0; k < NOPS; k++) if (q.at("op").str() == OPS[k].name) o.op = (int) k;
            p.ops.push_back(o);
        }
        return p;
    }

    static Result execute(const Plan &p) {
        Result res;
        // The sequential reference needs a process that has not initialised libsodium either: fork it now,
        // before any thread exists; it waits for the winner of the scheduled run and then executes
        // winner-first, one thread after the other, and sends back what it observed.
        int to_child[2], from_child[2];
        if (pipe(to_child) != 0 || pipe(from_child) != 0) { res.fail("harness", "pipe", "pipe failed", 0); return res; }
        fflush(stdout); fflush(stderr);
        pid_t pid = fork();
        if (pid == 0) {
            close(to_child[1]); close(from_child[0]);
            int winner = 0;
            if (read(to_child[0], &winner, sizeof winner) != (ssize_t) sizeof winner) _exit(4);
            std::vector<int> order;
            if (winner >= 0 && winner < p.nthreads) order.push_back(winner);
            for (int i = 0; i < p.nthreads; i++) if (i != winner) order.push_back(i);
            Outcome ref = run_plan(p, simrt::S_SEQUENTIAL, order, false);
            Json j = ref.to_json();
            j["fatal"] = RT.fatal_class; j["fatal_detail"] = RT.fatal_detail; j["fatal_locus"] = RT.fatal_locus;
            std::string s = j.dump();
            size_t off = 0;
            while (off < s.size()) { ssize_t w = write(from_child[1], s.data() + off, s.size() - off); if (w <= 0) break; off += (size_t) w; }
            _exit(0);
        }
        close(to_child[0]); close(from_child[1]);

        std::vector<int> order;
        for (int i = 0; i < p.nthreads; i++) order.push_back(i);
        RT.hist_enabled = getenv("C19_HIST") != nullptr;
        Outcome got = run_plan(p, p.strategy, order, true);
        if (RT.hist_enabled) {
            std::map<std::string, uint64_t> by;
            for (auto &kv : RT.hist) by[RT.symtab.name(kv.first, false)] += kv.second;
            std::vector<std::pair<uint64_t, std::string>> v;
            for (auto &kv : by) v.push_back({kv.second, kv.first});
            std::sort(v.rbegin(), v.rend());
            for (size_t i = 0; i < v.size() && i < 15; i++) fprintf(stderr, "HIST %10llu %s\n", (unsigned long long) v[i].first, v[i].second.c_str());
        }
        res.steps = RT.steps;
        res.digest = RT.trace.value();
        res.nontrivial = RT.preemptions > 0;
        res.count("probe.preemptions", RT.preemptions);
        res.count("probe.context_switches", RT.switches);
        res.count("probe.tracked_data_accesses", RT.mem_events);
        res.count("probe.tracked_heap_accesses", RT.heap_events);
        res.count("probe.reads_of_never_written_data", RT.reads_never_written);
        res.count("probe.shadow_evictions", RT.shadow_evictions);
        for (auto &kv : RT.counters) res.count(kv.first, kv.second);
        res.count(std::string("knob.strategy=") + simrt::strategy_name[p.strategy]);
        res.count(std::string("knob.rng=") + rng_name[p.rng]);
        res.count("knob.threads=" + std::to_string(p.nthreads));
        res.count(std::string("knob.preinit=") + (p.preinit ? "yes" : "no"));
        if (p.prior_init_calls) res.count("fault.sodium_init_called_before_by_main", p.prior_init_calls);
        res.count(std::string("knob.inline_main=") + (p.inline_main ? "yes" : "no"));
        res.count(std::string("knob.shared_arena=") + (p.shared_arena ? "yes" : "no"));
        if (g_sysconf_failed) res.count("fault.sysconf_pagesize_failed", g_sysconf_failed);
        if (g_frozen_clock_reads) res.count("fault.clock_frozen_reads", g_frozen_clock_reads);
        if (g_eintr_fired) res.count("fault.getrandom_eintr_eagain", g_eintr_fired);
        res.count(std::string("knob.kernel=") + (p.no_getrandom ? "no_getrandom" : "getrandom"));
        if (g_dev_reads) res.count("fault.getrandom_enosys_device_reads", g_dev_reads);
        if (g_entropy_dead_fired) res.count("fault.entropy_syscalls_dead_after_init", g_entropy_dead_fired);
        if (g_mlock_refused) res.count("fault.mlock_refused", g_mlock_refused);
        if (RT.lazily_created) res.count("probe.threads_created_when_first_scheduled", RT.lazily_created);
        if (RT.created_inside_marked) res.count("fault.thread_created_while_creator_inside_sodium_init", RT.created_inside_marked);
        res.count(std::string("knob.cpu_disable=") + cpu_mask_name((unsigned) p.pk.at("cpu_disable").u64()));
        if (RT.preemptions) res.count("fault.preemption", RT.preemptions);
        if (RT.counters.count("probe.lock_contended")) res.count("fault.thread_blocked_on_library_lock", RT.counters["probe.lock_contended"]);
        if (RT.counters.count("probe.spin_contended")) res.count("fault.thread_spinning_on_library_lock", RT.counters["probe.spin_contended"]);
        if (RT.preempt_marked) res.count("fault.preempted_inside_sodium_init", RT.preempt_marked);

        int winner = got.winner;
        if (write(to_child[1], &winner, sizeof winner) != (ssize_t) sizeof winner) {}
        close(to_child[1]);
        std::string rs;
        char buf[4096];
        for (;;) { ssize_t n = read(from_child[0], buf, sizeof buf); if (n <= 0) break; rs.append(buf, (size_t) n); }
        close(from_child[0]);
        int st = 0;
        waitpid(pid, &st, 0);

        if (RT.fatal_class == "entropy-failure-termination") {
            // the run ended the only way it legitimately can once the kernel refuses entropy; races found before that
            // moment were reported instead (whichever comes first ends the run)
            res.count("probe.terminated_on_entropy_failure");
            return res;
        }
        if (!RT.fatal_class.empty()) { res.fail(RT.fatal_class, RT.fatal_locus, RT.fatal_detail, (int) RT.steps); return res; }

        // ---- history oracles ----
        if (!p.preinit) {
            int zeros = 0, ones = 0, other = 0;
            for (int v : got.init_ret) { if (v == 0) zeros++; else if (v == 1) ones++; else other++; }
            int want_zeros = p.prior_init_calls ? 0 : 1;
            if (zeros != want_zeros || other != 0) {
                std::string s;
                for (int v : got.init_ret) s += " " + std::to_string(v);
                res.fail("init-return-values", zeros < want_zeros ? "no-initialiser" : zeros > want_zeros ? (p.prior_init_calls ? "initialised-again" : "several-initialisers") : "error-return",
                         "sodium_init() return values over the threads:" + s + (p.prior_init_calls ? " (expected 1 everywhere: the main thread had already called it " + std::to_string(p.prior_init_calls) + " times)" : " (expected exactly one 0 and the rest 1)"), (int) RT.steps);
                return res;
            }
            if (ones) res.count("probe.init_loser_returned_1", (uint64_t) ones);
        } else {
            for (size_t i = 0; i < got.init_ret.size(); i++) if (got.init_ret[i] != -99) { res.fail("harness", "preinit", "init called in preinit plan", 0); return res; }
        }
        if (rs.empty() || !WIFEXITED(st) || WEXITSTATUS(st) != 0) {
            res.fail("reference-failed", "sequential-reference", "the sequential reference execution of the same plan did not complete (status " + std::to_string(st) + ")", 0);
            return res;
        }
        Json rj = Json::parse(rs);
        Outcome ref = Outcome::from_json(rj);
        if (!rj.at("fatal").str().empty()) {
            res.fail("reference-failed", rj.at("fatal_locus").str(), "sequential reference: " + rj.at("fatal_detail").str(), 0);
            return res;
        }
        {
            // N racing calls must do the work of ONE call: what the reference saw by the time its first call returned
            const uint64_t g5[5] = {got.pagesize_queries, got.init_entropy_calls, got.init_entropy_bytes, got.init_stirs, got.init_src_bytes};
            static const char *nm5[5] = {"page-size queries", "entropy requests", "entropy bytes", "stirs of the installed source", "bytes drawn from the installed source"};
            for (int q = 0; q < 5 && !p.preinit; q++) if (g5[q] != ref.first[q]) {
                res.fail("init-not-exactly-once", "more-than-one-call", std::string("all sodium_init() calls of the run together made ") + std::to_string(g5[q]) + " " + nm5[q] + "; a single sodium_init() call (sequential reference, first call) makes " + std::to_string(ref.first[q]), (int) RT.steps);
                return res;
            }
        }
        if (got.end_keys != ref.first_keys) {
            // conservation of another small process-wide pool: thread-specific-data keys (1024 per process in glibc)
            res.fail("thread-key-leak", "pthread_key_create", "the library created " + std::to_string(got.end_keys) + " thread-specific-data key(s) / fork-handler registration(s) over the run with " + std::to_string(p.nthreads) +
                     " threads; one sodium_init() creates " + std::to_string(ref.first_keys) + " (sequential reference, first call): keys are taken per thread or per call from a pool of 1024 and never returned", (int) RT.steps);
            return res;
        }
        if (p.no_getrandom && got.end_fds != ref.first_fds) {
            // conservation: whatever the threads did, the library holds as many descriptors on the entropy device at the
            // end as one initialisation opens (randombytes_close() is not part of this configuration's workload)
            res.fail("descriptor-leak", "entropy-device", std::to_string(got.end_fds) + " descriptor(s) on the entropy device are open when all " + std::to_string(p.nthreads) +
                     " threads have finished; one sodium_init() leaves " + std::to_string(ref.first_fds) + " open (sequential reference, first call)", (int) RT.steps);
            return res;
        }
        if (got.pagesize_queries != ref.pagesize_queries || got.init_entropy_calls != ref.init_entropy_calls || got.init_entropy_bytes != ref.init_entropy_bytes ||
            got.init_stirs != ref.init_stirs || got.init_src_bytes != ref.init_src_bytes) {
            res.fail("init-not-exactly-once", "environment", "initialisation work seen at the environment boundary differs from one sequential initialisation: page-size queries " +
                     std::to_string(got.pagesize_queries) + "/" + std::to_string(ref.pagesize_queries) + ", entropy requests inside sodium_init " + std::to_string(got.init_entropy_calls) + "/" +
                     std::to_string(ref.init_entropy_calls) + " (" + std::to_string(got.init_entropy_bytes) + "/" + std::to_string(ref.init_entropy_bytes) + " bytes), stirs " +
                     std::to_string(got.init_stirs) + "/" + std::to_string(ref.init_stirs) + ", source bytes " + std::to_string(got.init_src_bytes) + "/" + std::to_string(ref.init_src_bytes), (int) RT.steps);
            return res;
        }
        for (int t = 0; t < p.nthreads; t++) {
            const auto &a = got.results[(size_t) t], &b = ref.results[(size_t) t];
            if (a.size() != b.size()) { res.fail("result-mismatch", "op-count", "thread " + std::to_string(t) + " completed " + std::to_string(a.size()) + " operations, the sequential run " + std::to_string(b.size()), 0); return res; }
            for (size_t i = 0; i < a.size(); i++) if (a[i] != b[i]) {
                const char *nm = OPS[(size_t) g_thread_ops[(size_t) t][i] % NOPS].name;
                res.fail("result-differs-from-sequential", nm, std::string("thread ") + std::to_string(t) + " operation #" + std::to_string(i) + " (" + nm + ") returned something else than in the sequential execution of the same plan", (int) i);
                return res;
            }
        }
        // outputs that are nothing but fresh randomness must never coincide, neither between threads (each has its
        // own entropy stream) nor within one thread
        {
            std::map<uint64_t, std::pair<int, size_t>> seen;
            for (int t = 0; t < p.nthreads && !res.violated; t++)
                for (size_t i = 0; i < got.results[(size_t) t].size(); i++) {
                    const char *nm = OPS[(size_t) g_thread_ops[(size_t) t][i] % NOPS].name;
                    if (strcmp(nm, "randombytes") && strcmp(nm, "randombytes_small") && strcmp(nm, "keygens") && strcmp(nm, "ed25519_random") && strcmp(nm, "ristretto_random")) continue;
                    uint64_t key = mix64(got.results[(size_t) t][i], hash_str(0, nm));
                    auto it = seen.find(key);
                    if (it != seen.end()) {
                        res.fail("random-output-repeats", nm, std::string("thread ") + std::to_string(t) + " operation #" + std::to_string(i) + " (" + nm + ") produced exactly the random output that thread " + std::to_string(it->second.first) + " operation #" + std::to_string(it->second.second) + " produced", (int) i);
                        break;
                    }
                    seen[key] = {t, i};
                }
            if (res.violated) return res;
        }
        res.count("probe.compared_with_sequential");
        return res;
    }

    // execute the plan's scheduled run once in a throw-away child and return the schedule it took, as deviations
    static bool capture_schedule(const Plan &p, std::vector<std::pair<uint64_t, int>> &out) {
        int fd[2];
        if (pipe(fd) != 0) return false;
        fflush(stdout); fflush(stderr);
        pid_t pid = fork();
        if (pid == 0) {
            close(fd[0]);
            int devnull = open("/dev/null", O_WRONLY); if (devnull >= 0) dup2(devnull, 2);
            proc_setup(p.pk);
            std::vector<int> order;
            for (int i = 0; i < p.nthreads; i++) order.push_back(i);
            (void) run_plan(p, p.strategy, order, true);
            std::string s;
            for (auto &d : RT.recorded) s += std::to_string(d.first) + " " + std::to_string(d.second) + "\n";
            size_t off = 0;
            while (off < s.size()) { ssize_t w = write(fd[1], s.data() + off, s.size() - off); if (w <= 0) break; off += (size_t) w; }
            _exit(0);
        }
        close(fd[1]);
        std::string rs; char buf[4096];
        for (;;) { ssize_t n = read(fd[0], buf, sizeof buf); if (n <= 0) break; rs.append(buf, (size_t) n); }
        close(fd[0]);
        int st = 0; waitpid(pid, &st, 0);
        std::istringstream in(rs);
        unsigned long long d; int t;
        while (in >> d >> t) out.push_back({d, t});
        return true;
    }

    static std::vector<Plan> simplify(const Plan &p) {
        std::vector<Plan> out;
        if (p.strategy != simrt::S_TRACE) {
            // turn the seed-generated schedule into an explicit one, so that it can be reduced
            Plan c = p;
            if (capture_schedule(p, c.sched) && c.sched.size() < 20000) { c.strategy = simrt::S_TRACE; out.push_back(c); }
        } else if (!p.sched.empty()) {
            { Plan c = p; c.sched.clear(); out.push_back(c); } // plain run-to-completion order
            size_t n = p.sched.size();
            for (size_t parts = 2; parts <= 16 && parts <= n; parts *= 2)
                for (size_t i = 0; i < parts; i++) { Plan c = p; c.sched.erase(c.sched.begin() + (long) (i * n / parts), c.sched.begin() + (long) ((i + 1) * n / parts)); out.push_back(c); }
            if (n <= 24) for (size_t i = 0; i < n; i++) { Plan c = p; c.sched.erase(c.sched.begin() + (long) i); out.push_back(c); }
        }
        if (p.nthreads > 2) {
            { Plan c = p; c.nthreads = 2; out.push_back(c); }
            { Plan c = p; c.nthreads = p.nthreads - 1; out.push_back(c); }
        }
        if (p.strategy != simrt::S_COARSE && p.strategy != simrt::S_TRACE) { Plan c = p; c.strategy = simrt::S_COARSE; out.push_back(c); }
        if (p.strategy == simrt::S_PCT && p.pct_depth > 1) { Plan c = p; c.pct_depth--; out.push_back(c); }
        if (p.pk.at("cpu_disable").u64() != NO_RDRAND) { Plan c = p; c.pk["cpu_disable"] = (unsigned) NO_RDRAND; out.push_back(c); }
        if (p.rng != R_DEFAULT) { Plan c = p; c.rng = R_DEFAULT; out.push_back(c); }
        if (p.inline_main) { Plan c = p; c.inline_main = false; out.push_back(c); }
        if (p.sysconf_fails) { Plan c = p; c.sysconf_fails = false; out.push_back(c); }
        if (p.frozen_clock) { Plan c = p; c.frozen_clock = false; out.push_back(c); }
        if (p.no_getrandom) { Plan c = p; c.no_getrandom = false; out.push_back(c); }
        if (p.entropy_dies_after) { Plan c = p; c.entropy_dies_after = 0; out.push_back(c); }
        if (p.prior_init_calls > 1) { Plan c = p; c.prior_init_calls = 1; out.push_back(c); }
        if (p.env_fault_pct) { Plan c = p; c.env_fault_pct = 0; out.push_back(c); }
        if (p.shared_arena) { Plan c = p; c.shared_arena = false; out.push_back(c); }
        if (p.strategy != simrt::S_TRACE && p.sched_seed > 3) for (uint64_t s = 1; s <= 3; s++) { Plan c = p; c.sched_seed = s; out.push_back(c); }
        return out;
    }

    static void describe(Json &ev) {
        Json comp = Json::object(), real = Json::array(), stub = Json::array();
        real.push("all of libsodium compiled from /repo's working tree with clang -fsanitize=thread instrumentation (core.c lock variant: " C19_LOCK_VARIANT "), running on real pthreads");
        real.push("the built-in random sources randombytes_sysrandom.c / randombytes_internal_random.c (RNG configurations default / internal)");
        real.push("glibc, kernel mappings and page protections");
        stub.push("ThreadSanitizer runtime replaced by sim/simrt: seeded scheduler (one runnable thread at a time), vector-clock happens-before race detector, mutex ownership and spin-lock fairness model");
        stub.push("kernel entropy (getrandom/getentropy), gettimeofday, getpid: per-thread deterministic streams so that random-dependent results are schedule-independent");
        stub.push("mlock/munlock/madvise (always succeed)");
        stub.push("assembly files (*.S) are not instrumented: they touch only their arguments and the stack");
        comp["real"] = real; comp["stub"] = stub;
        ev["components"] = comp;
        Json as = Json::array();
        as.push("happens-before is the C11 one: mutex, atomics (acquire/release on a per-address clock), thread creation/exit; volatile gives no ordering");
        as.push("caller buffers are per thread (the property's premise) and untracked; races only through them are not in scope");
        as.push("sodium_misuse and randombytes_set_implementation are process-configuration calls and not part of the concurrent workload (sodium_set_misuse_handler, randombytes_stir and randombytes_close are)");
        as.push("a shadow cell keeps at most 6 accesses per 8 bytes; eviction can only lose a report (counted in probe shadow_evictions), never invent one");
        ev["assumptions"] = as;
        ev["x_lock_variant"] = C19_LOCK_VARIANT;
        ev["simulated_time_note"] = "no clock is read by the properties' code paths (gettimeofday is only a nonce for the internal generator and is served by the simulator: a per-thread counter, or, under the clock knob, one frozen instant for every thread -- fault.clock_frozen_reads counts those reads); sim_steps counts scheduler steps (yield points)";
    }
};

} // namespace

int main(int argc, char **argv) {
    Runner<C19> r;
    return r.main(argc, argv);
}
