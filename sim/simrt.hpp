// simrt: the C19 run-time.  libsodium is compiled with clang -fsanitize=thread but linked against
// THIS file instead of the ThreadSanitizer runtime: the compiler-emitted __tsan_read*/__tsan_write*/
// __tsan_atomic* calls give (a) a preemption point at every access to tracked memory and (b) the event
// stream for an own happens-before race detector.  Sim-threads are real pthreads, each parked on its own
// semaphore; exactly one is runnable at any time and the seeded scheduler decides which.
//
// Tracked memory = the executable's writable data segment [__data_start, _end)  (every libsodium static)
//                + blocks allocated by the library (malloc/calloc/posix_memalign/mmap hooks).
// Happens-before comes ONLY from the program's own synchronisation (mutex, atomics, thread create/join),
// never from the scheduler's hand-offs.
#pragma once
#include "prng.hpp"
#include "simos.h"

#include <algorithm>
#include <cstdint>
#include <cstdio>
#include <cstdlib>
#include <cstring>
#include <elf.h>
#include <fcntl.h>
#include <link.h>
#include <map>
#include <pthread.h>
#include <semaphore.h>
#include <string>
#include <sys/mman.h>
#include <sys/stat.h>
#include <unistd.h>
#include <vector>

extern "C" char __data_start, _end;

namespace simrt {

const int MAXT = 18;

// ---------------- symbols (for reports; ASLR-independent names) ----------------
struct Sym { uintptr_t lo, hi; std::string name; bool func; };
struct SymTab {
    std::vector<Sym> syms;
    uintptr_t bias = 0;
    static int phdr_cb(struct dl_phdr_info *info, size_t, void *data) { *(uintptr_t *) data = info->dlpi_addr; return 1; }
    void load() {
        dl_iterate_phdr(phdr_cb, &bias);
        int fd = open("/proc/self/exe", O_RDONLY);
        if (fd < 0) return;
        struct stat st;
        fstat(fd, &st);
        unsigned char *m = (unsigned char *) mmap(nullptr, (size_t) st.st_size, PROT_READ, MAP_PRIVATE, fd, 0);
        close(fd);
        if (m == MAP_FAILED) return;
        Elf64_Ehdr *eh = (Elf64_Ehdr *) m;
        Elf64_Shdr *sh = (Elf64_Shdr *) (m + eh->e_shoff);
        for (int i = 0; i < eh->e_shnum; i++) {
            if (sh[i].sh_type != SHT_SYMTAB) continue;
            Elf64_Sym *s = (Elf64_Sym *) (m + sh[i].sh_offset);
            size_t n = sh[i].sh_size / sizeof(Elf64_Sym);
            const char *str = (const char *) (m + sh[sh[i].sh_link].sh_offset);
            for (size_t k = 0; k < n; k++) {
                int t = ELF64_ST_TYPE(s[k].st_info);
                if ((t != STT_OBJECT && t != STT_FUNC && t != STT_TLS) || s[k].st_shndx == SHN_UNDEF) continue;
                if (t == STT_TLS) continue;
                uintptr_t lo = bias + s[k].st_value;
                syms.push_back({lo, lo + (s[k].st_size ? s[k].st_size : 1), str + s[k].st_name, t == STT_FUNC});
            }
        }
        munmap(m, (size_t) st.st_size);
        std::sort(syms.begin(), syms.end(), [](const Sym &a, const Sym &b) { return a.lo < b.lo; });
    }
    std::string name(uintptr_t a, bool func, long *off = nullptr) const {
        // last symbol of the wanted kind with lo <= a
        size_t lo = 0, hi = syms.size();
        while (lo < hi) { size_t mid = (lo + hi) / 2; if (syms[mid].lo <= a) lo = mid + 1; else hi = mid; }
        for (size_t i = lo; i > 0 && i + 64 > lo; i--) {
            const Sym &s = syms[i - 1];
            if (s.func != func) continue;
            if (a < s.hi || (func && a < s.hi + 16)) {
                if (off) *off = (long) (a - s.lo);
                std::string n = s.name;
                // functions cloned by the optimiser (f.constprop.0, f.isra.1) report as f; objects keep the suffix the
                // optimiser gives to the fields of a split static struct (global.5): it identifies the field
                size_t dot = n.find('.');
                if (func && dot != std::string::npos && dot > 0) n = n.substr(0, dot);
                return n;
            }
            break;
        }
        return "?";
    }
};

// ---------------- vector clocks, shadow cells ----------------
struct VC {
    uint32_t c[MAXT];
    VC() { memset(c, 0, sizeof c); }
    void join(const VC &o) { for (int i = 0; i < MAXT; i++) if (o.c[i] > c[i]) c[i] = o.c[i]; }
};
struct Acc { uint32_t clk; uint8_t tid; uint8_t mask; uint8_t is_write; uint8_t valid; uintptr_t pc; };
const int CELL_ENTRIES = 6;
struct Cell { Acc e[CELL_ENTRIES]; };

struct Block { uintptr_t lo, hi; std::vector<Cell> cells; uint64_t ordinal; char kind; };

enum YieldKind { Y_MEM = 0, Y_LOCK, Y_LOCKED, Y_UNLOCK, Y_SYSCALL, Y_ATOMIC, Y_START, Y_EXIT, Y_OPBOUNDARY };
enum Strategy { S_SEQUENTIAL = 0, S_RANDOM, S_PCT, S_LOSER_FIRST, S_COARSE, S_TRACE, S_NSTRATEGIES };
static const char *strategy_name[S_NSTRATEGIES] = {"sequential", "random", "pct", "loser_first", "coarse", "explicit"};
enum TState { T_NEW = 0, T_RUNNABLE, T_BLOCKED_MUTEX, T_BLOCKED_SPIN, T_FINISHED, T_DEAD };

struct SimThread {
    int id = 0;
    sem_t sem;
    pthread_t th;
    TState state = T_NEW;
    void *blocked_on = nullptr;
    VC vc;
    uint32_t prio = 0;
    uint64_t spin_fail = 0;
    void (*body)(int) = nullptr;
    bool created = false;
};

struct RaceReport { bool found = false; std::string object, site_a, site_b, kind; int tid_a = 0, tid_b = 0; long obj_off = 0; };

struct Runtime {
    bool active = false;      // instrumentation callbacks act only while a simulation is running
    int nthreads = 0;
    SimThread T[MAXT];
    int cur = -1;
    int strategy = S_RANDOM;
    sim::Rng sched;
    unsigned pct_depth = 2;
    std::vector<uint64_t> pct_points;
    uint64_t est_steps = 3000;
    std::vector<int> seq_order; // for S_SEQUENTIAL: preferred order of threads
    uint64_t decisions = 0;                                   // scheduling decisions taken so far
    std::vector<std::pair<uint64_t, int>> recorded, trace_in; // deviations from the default policy: recorded / to replay (S_TRACE)
    size_t trace_pos = 0;
    uint64_t steps = 0, step_cap = 400000, preemptions = 0, switches = 0;
    sim::Digest trace;          // interleaving digest: (thread, kind, relative address) at every yield point
    uint64_t mem_events = 0, heap_events = 0, reads_never_written = 0, shadow_evictions = 0;
    // tracked memory
    uintptr_t data_lo = 0, data_hi = 0;
    std::vector<Cell> data_cells;
    std::vector<uint8_t> data_written; // per cell: has any thread written it during this run?
    std::vector<Block> blocks;  // sorted by lo
    uintptr_t blocks_lo = UINTPTR_MAX, blocks_hi = 0;
    uint64_t next_block = 0;
    // sync objects
    std::map<void *, int> mutex_owner;
    std::map<void *, VC> sync_vc;
    // outcome
    RaceReport race;
    std::string fatal_class, fatal_locus, fatal_detail; // deadlock, livelock, assert, terminated ...
    sem_t done;
    SymTab symtab;
    std::map<std::string, uint64_t> counters;
    bool stop_requested = false;
    bool main_inline = false;  // thread 0 is the process's main thread; the other threads are created when first scheduled
    uint64_t lazily_created = 0, created_inside_marked = 0;
    const bool *mark = nullptr; uint64_t preempt_marked = 0; // engine-provided per-thread flag; counts preemptions while it is set
    bool hist_enabled = false; std::map<uintptr_t, uint64_t> hist; // debugging aid: C19_HIST=1
    bool detect_races = true;  // off in the sequential reference execution (it only provides expected results)

    void init_static() {
        symtab.load();
        data_lo = (uintptr_t) &__data_start;
        data_hi = (uintptr_t) &_end;
        sem_init(&done, 0, 0);
    }
    void reset(int n, uint64_t sched_seed, int strat, unsigned depth) {
        nthreads = n; cur = -1; strategy = strat; pct_depth = depth;
        sched.seed(sched_seed);
        steps = preemptions = switches = mem_events = heap_events = reads_never_written = shadow_evictions = preempt_marked = 0;
        counters.clear();
        decisions = 0; recorded.clear(); trace_pos = 0; lazily_created = created_inside_marked = 0;
        trace = sim::Digest();
        data_cells.assign((data_hi - data_lo + 7) / 8, Cell());
        for (auto &c : data_cells) memset(&c, 0, sizeof c);
        data_written.assign(data_cells.size(), 0);
        blocks.clear(); blocks_lo = UINTPTR_MAX; blocks_hi = 0; next_block = 0;
        mutex_owner.clear(); sync_vc.clear();
        race = RaceReport(); fatal_class.clear(); fatal_locus.clear(); fatal_detail.clear();
        stop_requested = false;
        pct_points.clear();
        for (int i = 0; i < n; i++) {
            T[i].id = i; T[i].state = T_NEW; T[i].blocked_on = nullptr; T[i].vc = VC(); T[i].vc.c[i] = 1; T[i].spin_fail = 0; T[i].created = false;
            sem_init(&T[i].sem, 0, 0);
        }
        if (strat == S_PCT) {
            std::vector<uint32_t> pr;
            for (int i = 0; i < n; i++) pr.push_back((uint32_t) (depth + 1 + i));
            for (int i = n - 1; i > 0; i--) std::swap(pr[(size_t) i], pr[sched.below((uint64_t) i + 1)]);
            for (int i = 0; i < n; i++) T[i].prio = pr[(size_t) i];
            for (unsigned d = 0; d < depth; d++) pct_points.push_back(sched.below(est_steps ? est_steps : 1));
            std::sort(pct_points.begin(), pct_points.end());
        }
    }
};

extern Runtime RT;
extern __thread int tls_tid; // -1 outside sim threads

// ---------------- race detection ----------------
inline bool hb(const Acc &e, const VC &now) { return e.clk <= now.c[e.tid]; }

void report_race(const Acc &old, int tid, bool is_write, uintptr_t addr, uintptr_t pc);

inline void cell_access(Cell &cell, int tid, uint8_t mask, bool is_write, uintptr_t addr, uintptr_t pc) {
    const VC &now = RT.T[tid].vc;
    int free_slot = -1, same = -1;
    for (int i = 0; i < CELL_ENTRIES; i++) {
        Acc &e = cell.e[i];
        if (!e.valid) { if (free_slot < 0) free_slot = i; continue; }
        if (e.tid == tid) {
            if (e.mask == mask && e.is_write == (uint8_t) is_write) same = i;
            else if ((e.mask & ~mask) == 0 && (is_write || !e.is_write)) { e.valid = 0; if (free_slot < 0) free_slot = i; } // subsumed by this access
            continue;
        }
        if ((e.mask & mask) && (is_write || e.is_write) && !hb(e, now)) {
            if (!RT.race.found) report_race(e, tid, is_write, addr, pc);
            return;
        }
        // an older access that happens-before this one and is covered by it can be forgotten (see DESIGN 7.3)
        if (hb(e, now) && (e.mask & ~mask) == 0 && (is_write || !e.is_write)) { e.valid = 0; if (free_slot < 0) free_slot = i; }
    }
    int slot = same >= 0 ? same : free_slot;
    if (slot < 0) {
        // full: evict a read entry if there is one, else the first entry (can only lose a report, never invent one)
        slot = 0;
        for (int i = 0; i < CELL_ENTRIES; i++) if (!cell.e[i].is_write) { slot = i; break; }
        RT.shadow_evictions++;
    }
    Acc &n = cell.e[slot];
    n.clk = now.c[tid]; n.tid = (uint8_t) tid; n.mask = mask; n.is_write = is_write; n.valid = 1; n.pc = pc;
}

inline Block *find_block(uintptr_t a) {
    if (a < RT.blocks_lo || a >= RT.blocks_hi) return nullptr;
    size_t lo = 0, hi = RT.blocks.size();
    while (lo < hi) { size_t mid = (lo + hi) / 2; if (RT.blocks[mid].lo <= a) lo = mid + 1; else hi = mid; }
    if (lo == 0) return nullptr;
    Block &b = RT.blocks[lo - 1];
    return a < b.hi ? &b : nullptr;
}

void yield_point(YieldKind k, uintptr_t info);

// one access [a, a+n) by the current sim thread
inline void on_access(uintptr_t a, size_t n, bool is_write, uintptr_t pc) {
    if (!RT.active) return;
    int tid = tls_tid;
    if (tid < 0 || RT.stop_requested) return;
    Cell *base; uintptr_t lo;
    bool in_data = a >= RT.data_lo && a < RT.data_hi;
    if (in_data) { base = RT.data_cells.data(); lo = RT.data_lo; }
    else {
        Block *b = find_block(a);
        if (!b) return;
        base = b->cells.data(); lo = b->lo;
        if (a + n > b->hi) n = b->hi - a;
        RT.heap_events++;
    }
    if (in_data) {
        if (a + n > RT.data_hi) n = RT.data_hi - a;
        RT.mem_events++;
        if (RT.hist_enabled) RT.hist[a]++;
        // Preemption point BEFORE the access -- but only for locations some thread has written during this run (or is
        // writing now).  Reads of never-written memory (constant tables that happen to live in .data) commute with
        // everything, so not yielding there loses no interleaving; race detection below is unaffected.
        size_t c0 = (a - RT.data_lo) / 8, c1 = (a + n - 1 - RT.data_lo) / 8;
        bool relevant = is_write;
        for (size_t ci = c0; ci <= c1 && !relevant; ci++) relevant = RT.data_written[ci] != 0;
        if (is_write) for (size_t ci = c0; ci <= c1; ci++) RT.data_written[ci] = 1;
        if (relevant) {
            yield_point(Y_MEM, ((a - RT.data_lo) << 1) | (is_write ? 1 : 0));
            if (RT.stop_requested) return;
        } else RT.reads_never_written++;
    }
    if (!RT.detect_races) return;
    uintptr_t end = a + n;
    while (a < end) {
        uintptr_t cell_lo = a & ~(uintptr_t) 7;
        unsigned first = (unsigned) (a - cell_lo), last = (unsigned) std::min<uintptr_t>(end - cell_lo, 8);
        uint8_t mask = (uint8_t) (((1u << (last - first)) - 1) << first);
        cell_access(base[(cell_lo - (lo & ~(uintptr_t) 7)) / 8], tid, mask, is_write, a, pc);
        if (RT.race.found) return;
        a = cell_lo + 8;
    }
}

// ---------------- blocks allocated by the library ----------------
inline void register_block(uintptr_t lo, size_t len, char kind, bool force = false) {
    if ((!RT.active && !force) || !len) return;
    Block b; b.lo = lo; b.hi = lo + len; b.ordinal = RT.next_block++; b.kind = kind;
    b.cells.assign(((b.hi + 7) / 8) - (lo / 8), Cell());
    for (auto &c : b.cells) memset(&c, 0, sizeof c);
    auto it = std::lower_bound(RT.blocks.begin(), RT.blocks.end(), lo, [](const Block &x, uintptr_t v) { return x.lo < v; });
    RT.blocks.insert(it, std::move(b));
    RT.blocks_lo = std::min(RT.blocks_lo, lo); RT.blocks_hi = std::max(RT.blocks_hi, lo + len);
}
inline void unregister_block(uintptr_t lo) {
    for (size_t i = 0; i < RT.blocks.size(); i++) if (RT.blocks[i].lo == lo) { RT.blocks.erase(RT.blocks.begin() + (long) i); return; }
}

// ---------------- synchronisation model ----------------
inline void sync_release(void *obj, int tid) { VC &s = RT.sync_vc[obj]; s.join(RT.T[tid].vc); RT.T[tid].vc.c[tid]++; }
inline void sync_release_store(void *obj, int tid) { RT.sync_vc[obj] = RT.T[tid].vc; RT.T[tid].vc.c[tid]++; }
inline void sync_acquire(void *obj, int tid) { auto it = RT.sync_vc.find(obj); if (it != RT.sync_vc.end()) RT.T[tid].vc.join(it->second); }

void fatal(const std::string &cls, const std::string &locus, const std::string &detail); // records, stops the run, parks the caller

} // namespace simrt
