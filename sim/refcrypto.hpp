// Independent reference primitives for the harness-side models (written for /verif, share no
// code with libsodium): ChaCha20 block function (RFC 8439), HChaCha20 (draft-irtf-cfrg-xchacha),
// Poly1305 (RFC 8439, plain 130-bit arithmetic on 26-bit limbs), and the secretstream
// construction built from them exactly as documented.  selftest() checks RFC vectors.
#pragma once
#include <cstdint>
#include <cstring>
#include <string>
#include <vector>

namespace ref {

typedef std::vector<unsigned char> Bytes;

static inline uint32_t rotl32(uint32_t x, int n) { return (x << n) | (x >> (32 - n)); }
static inline uint32_t ld32(const unsigned char *p) { return (uint32_t) p[0] | ((uint32_t) p[1] << 8) | ((uint32_t) p[2] << 16) | ((uint32_t) p[3] << 24); }
static inline void st32(unsigned char *p, uint32_t v) { p[0] = (unsigned char) v; p[1] = (unsigned char) (v >> 8); p[2] = (unsigned char) (v >> 16); p[3] = (unsigned char) (v >> 24); }

static inline void qr(uint32_t &a, uint32_t &b, uint32_t &c, uint32_t &d) {
    a += b; d ^= a; d = rotl32(d, 16);
    c += d; b ^= c; b = rotl32(b, 12);
    a += b; d ^= a; d = rotl32(d, 8);
    c += d; b ^= c; b = rotl32(b, 7);
}
static inline void rounds20(uint32_t x[16]) {
    for (int i = 0; i < 10; i++) {
        qr(x[0], x[4], x[8], x[12]); qr(x[1], x[5], x[9], x[13]); qr(x[2], x[6], x[10], x[14]); qr(x[3], x[7], x[11], x[15]);
        qr(x[0], x[5], x[10], x[15]); qr(x[1], x[6], x[11], x[12]); qr(x[2], x[7], x[8], x[13]); qr(x[3], x[4], x[9], x[14]);
    }
}
static const uint32_t SIGMA[4] = {0x61707865, 0x3320646e, 0x79622d32, 0x6b206574};

// ChaCha20-IETF: 32-bit block counter, 96-bit nonce
static inline void chacha20_block(unsigned char out[64], const unsigned char key[32], uint32_t counter, const unsigned char nonce[12]) {
    uint32_t st[16], x[16];
    for (int i = 0; i < 4; i++) st[i] = SIGMA[i];
    for (int i = 0; i < 8; i++) st[4 + i] = ld32(key + 4 * i);
    st[12] = counter;
    for (int i = 0; i < 3; i++) st[13 + i] = ld32(nonce + 4 * i);
    memcpy(x, st, sizeof x);
    rounds20(x);
    for (int i = 0; i < 16; i++) st32(out + 4 * i, x[i] + st[i]);
}
static inline void chacha20_ietf_xor(unsigned char *out, const unsigned char *in, size_t len, const unsigned char key[32], uint32_t counter, const unsigned char nonce[12]) {
    unsigned char blk[64];
    size_t off = 0;
    while (off < len) {
        chacha20_block(blk, key, counter++, nonce);
        size_t n = len - off < 64 ? len - off : 64;
        for (size_t i = 0; i < n; i++) out[off + i] = (unsigned char) ((in ? in[off + i] : 0) ^ blk[i]);
        off += n;
    }
}
static inline void hchacha20(unsigned char out[32], const unsigned char key[32], const unsigned char in16[16]) {
    uint32_t x[16];
    for (int i = 0; i < 4; i++) x[i] = SIGMA[i];
    for (int i = 0; i < 8; i++) x[4 + i] = ld32(key + 4 * i);
    for (int i = 0; i < 4; i++) x[12 + i] = ld32(in16 + 4 * i);
    rounds20(x);
    for (int i = 0; i < 4; i++) st32(out + 4 * i, x[i]);
    for (int i = 0; i < 4; i++) st32(out + 16 + 4 * i, x[12 + i]);
}

// Poly1305 over a whole message, 5 x 26-bit limbs, schoolbook multiply, full reduction
struct Poly1305 {
    uint64_t r[5], h[5];
    unsigned char s[16];
    unsigned char buf[16];
    size_t fill = 0;
    explicit Poly1305(const unsigned char key[32]) {
        unsigned char rr[16];
        memcpy(rr, key, 16);
        rr[3] &= 15; rr[7] &= 15; rr[11] &= 15; rr[15] &= 15;
        rr[4] &= 252; rr[8] &= 252; rr[12] &= 252;
        to_limbs(rr, 0, r);
        for (auto &v : h) v = 0;
        memcpy(s, key + 16, 16);
    }
    static void to_limbs(const unsigned char b[16], uint64_t hibit, uint64_t l[5]) {
        // 128-bit little-endian number + hibit * 2^128, split into 26-bit limbs
        unsigned __int128 v = 0;
        for (int i = 15; i >= 0; i--) v = (v << 8) | b[i];
        l[0] = (uint64_t) (v & 0x3ffffff);
        l[1] = (uint64_t) ((v >> 26) & 0x3ffffff);
        l[2] = (uint64_t) ((v >> 52) & 0x3ffffff);
        l[3] = (uint64_t) ((v >> 78) & 0x3ffffff);
        l[4] = (uint64_t) ((v >> 104) & 0xffffff) | (hibit << 24);
    }
    void block(const unsigned char b[16], uint64_t hibit) {
        uint64_t m[5];
        to_limbs(b, hibit, m);
        for (int i = 0; i < 5; i++) h[i] += m[i];
        // h = h * r mod 2^130 - 5
        uint64_t d[5];
        for (int i = 0; i < 5; i++) {
            unsigned __int128 acc = 0;
            for (int j = 0; j < 5; j++) {
                int k = i - j;
                uint64_t rv = k >= 0 ? r[k] : 5 * r[k + 5];
                acc += (unsigned __int128) h[j] * rv;
            }
            // acc < 5 * 2^27 * 5*2^26 ~ 2^58: fits
            d[i] = (uint64_t) acc;
        }
        uint64_t c = 0;
        for (int i = 0; i < 5; i++) { d[i] += c; c = d[i] >> 26; d[i] &= 0x3ffffff; }
        d[0] += c * 5; c = d[0] >> 26; d[0] &= 0x3ffffff; d[1] += c;
        for (int i = 0; i < 5; i++) h[i] = d[i];
    }
    void update(const unsigned char *p, size_t n) {
        while (n) {
            size_t take = 16 - fill < n ? 16 - fill : n;
            memcpy(buf + fill, p, take);
            fill += take; p += take; n -= take;
            if (fill == 16) { block(buf, 1); fill = 0; }
        }
    }
    // the accumulator as a canonical residue mod 2^130-5 (after absorbing a pending partial block), without the final "+ s"
    void canonical_acc(uint64_t out[5]) {
        if (fill) {
            unsigned char last[16] = {0};
            memcpy(last, buf, fill);
            last[fill] = 1;
            block(last, 0);
            fill = 0;
        }
        uint64_t c = 0;
        for (int round = 0; round < 2; round++) {
            for (int i = 0; i < 5; i++) { h[i] += c; c = h[i] >> 26; h[i] &= 0x3ffffff; }
            h[0] += c * 5; c = 0;
        }
        c = h[0] >> 26; h[0] &= 0x3ffffff; h[1] += c;
        uint64_t g[5]; uint64_t carry = 5;
        for (int i = 0; i < 5; i++) { g[i] = h[i] + carry; carry = g[i] >> 26; g[i] &= 0x3ffffff; }
        for (int i = 0; i < 5; i++) out[i] = carry ? g[i] : h[i];
    }
    void final(unsigned char mac[16]) {
        if (fill) {
            unsigned char last[16] = {0};
            memcpy(last, buf, fill);
            last[fill] = 1;
            block(last, 0);
            fill = 0;
        }
        // full carry
        uint64_t c = 0;
        for (int round = 0; round < 2; round++) {
            for (int i = 0; i < 5; i++) { h[i] += c; c = h[i] >> 26; h[i] &= 0x3ffffff; }
            h[0] += c * 5; c = 0;
        }
        c = h[0] >> 26; h[0] &= 0x3ffffff; h[1] += c;
        // compute h - p; select
        uint64_t g[5]; uint64_t carry = 5;
        for (int i = 0; i < 5; i++) { g[i] = h[i] + carry; carry = g[i] >> 26; g[i] &= 0x3ffffff; }
        // if g >= 2^130 (carry out of limb 4) then h >= p: use g (minus 2^130)
        if (carry) for (int i = 0; i < 5; i++) h[i] = g[i];
        unsigned __int128 v = (unsigned __int128) h[0] + ((unsigned __int128) h[1] << 26) + ((unsigned __int128) h[2] << 52) + ((unsigned __int128) h[3] << 78) + ((unsigned __int128) h[4] << 104);
        unsigned __int128 sv = 0;
        for (int i = 15; i >= 0; i--) sv = (sv << 8) | s[i];
        v += sv;
        for (int i = 0; i < 16; i++) { mac[i] = (unsigned char) v; v >>= 8; }
    }
};

// ---- secretstream_xchacha20poly1305, as documented ----
struct StreamState {
    unsigned char k[32];
    unsigned char nonce[12]; // counter (LE32) | inonce[8]
    bool operator==(const StreamState &o) const { return memcmp(k, o.k, 32) == 0 && memcmp(nonce, o.nonce, 12) == 0; }
};
enum { TAG_MESSAGE = 0, TAG_PUSH = 1, TAG_REKEY = 2, TAG_FINAL = 3 };

static inline void stream_init(StreamState &st, const unsigned char header[24], const unsigned char key[32]) {
    hchacha20(st.k, key, header);
    st.nonce[0] = 1; st.nonce[1] = st.nonce[2] = st.nonce[3] = 0;
    memcpy(st.nonce + 4, header + 16, 8);
}
static inline void stream_rekey(StreamState &st) {
    unsigned char buf[40];
    memcpy(buf, st.k, 32); memcpy(buf + 32, st.nonce + 4, 8);
    chacha20_ietf_xor(buf, buf, 40, st.k, 0, st.nonce);
    memcpy(st.k, buf, 32); memcpy(st.nonce + 4, buf + 32, 8);
    st.nonce[0] = 1; st.nonce[1] = st.nonce[2] = st.nonce[3] = 0;
}
static inline void stream_mac(unsigned char mac[16], const StreamState &st, const unsigned char encblock[64], const unsigned char *c, size_t mlen,
                              const unsigned char *ad, size_t adlen) {
    unsigned char b0[64];
    chacha20_block(b0, st.k, 0, st.nonce);
    Poly1305 p(b0);
    static const unsigned char zero[16] = {0};
    p.update(ad, adlen);
    p.update(zero, (16 - adlen) & 15);
    p.update(encblock, 64);
    p.update(c, mlen);
    p.update(zero, (size_t) ((16 - 64 + mlen) & 15)); // the documented (quirky) padding
    unsigned char sl[8];
    uint64_t v = adlen; for (int i = 0; i < 8; i++) { sl[i] = (unsigned char) v; v >>= 8; }
    p.update(sl, 8);
    v = 64 + (uint64_t) mlen; for (int i = 0; i < 8; i++) { sl[i] = (unsigned char) v; v >>= 8; }
    p.update(sl, 8);
    p.final(mac);
}
// ---- arithmetic mod p = 2^130 - 5 on canonical 5 x 26-bit limbs (used to craft messages whose Poly1305 accumulator lands
// in the narrow band [p, 2^130) just before the final reduction) ----
struct F130 { uint64_t l[5]; };
static inline F130 f_small(uint64_t v) { F130 a; a.l[0] = v; a.l[1] = a.l[2] = a.l[3] = a.l[4] = 0; return a; }
static inline F130 f_canon(F130 a) {
    uint64_t c = 0;
    for (int round = 0; round < 2; round++) {
        for (int i = 0; i < 5; i++) { a.l[i] += c; c = a.l[i] >> 26; a.l[i] &= 0x3ffffff; }
        a.l[0] += c * 5; c = 0;
    }
    c = a.l[0] >> 26; a.l[0] &= 0x3ffffff; a.l[1] += c;
    uint64_t g[5], carry = 5;
    for (int i = 0; i < 5; i++) { g[i] = a.l[i] + carry; carry = g[i] >> 26; g[i] &= 0x3ffffff; }
    if (carry) for (int i = 0; i < 5; i++) a.l[i] = g[i];
    return a;
}
static inline F130 f_mul(const F130 &a, const F130 &b) {
    F130 d;
    for (int i = 0; i < 5; i++) {
        unsigned __int128 acc = 0;
        for (int j = 0; j < 5; j++) { int k = i - j; uint64_t bv = k >= 0 ? b.l[k] : 5 * b.l[k + 5]; acc += (unsigned __int128) a.l[j] * bv; }
        d.l[i] = (uint64_t) acc;
    }
    return f_canon(d);
}
static inline F130 f_add(const F130 &a, const F130 &b) { F130 d; for (int i = 0; i < 5; i++) d.l[i] = a.l[i] + b.l[i]; return f_canon(d); }
static inline F130 f_sub(const F130 &a, const F130 &b) {
    // a - b = a + (p - b); p in limbs: 0x3fffffb, 0x3ffffff x 4
    static const uint64_t P[5] = {0x3fffffb, 0x3ffffff, 0x3ffffff, 0x3ffffff, 0x3ffffff};
    F130 d; for (int i = 0; i < 5; i++) d.l[i] = a.l[i] + P[i] - b.l[i];
    return f_canon(d);
}
static inline F130 f_inv(const F130 &a) { // a^(p-2), p-2 = 2^130 - 7
    F130 result = f_small(1), base = a;
    // exponent bits of 2^130-7: low three bits 001 (…11111001), all other 127 bits set
    for (int bit = 0; bit < 130; bit++) {
        bool set = bit == 0 || bit >= 3;
        if (set) result = f_mul(result, base);
        base = f_mul(base, base);
    }
    return result;
}
static inline bool f_below_2_128(const F130 &a) { return a.l[4] < ((uint64_t) 1 << 24); }
static inline void f_to_bytes16(const F130 &a, unsigned char out[16]) {
    unsigned __int128 v = (unsigned __int128) a.l[0] + ((unsigned __int128) a.l[1] << 26) + ((unsigned __int128) a.l[2] << 52) + ((unsigned __int128) a.l[3] << 78) + ((unsigned __int128) a.l[4] << 104);
    for (int i = 0; i < 16; i++) { out[i] = (unsigned char) v; v >>= 8; }
}
// the MAC computation of one chunk, stopped before the final reduction: the accumulator as a canonical residue
static inline F130 stream_mac_acc(const StreamState &st, const unsigned char encblock[64], const unsigned char *c, size_t mlen, const unsigned char *ad, size_t adlen) {
    unsigned char b0[64];
    chacha20_block(b0, st.k, 0, st.nonce);
    Poly1305 p(b0);
    static const unsigned char zero[16] = {0};
    p.update(ad, adlen);
    p.update(zero, (16 - adlen) & 15);
    p.update(encblock, 64);
    p.update(c, mlen);
    p.update(zero, (size_t) ((16 - 64 + mlen) & 15));
    unsigned char sl[8];
    uint64_t v = adlen; for (int i = 0; i < 8; i++) { sl[i] = (unsigned char) v; v >>= 8; }
    p.update(sl, 8);
    v = 64 + (uint64_t) mlen; for (int i = 0; i < 8; i++) { sl[i] = (unsigned char) v; v >>= 8; }
    p.update(sl, 8);
    F130 a; p.canonical_acc(a.l);
    return a;
}
// Replaces the first 16 bytes of m (mlen >= 16) so that the chunk's Poly1305 accumulator is congruent to v in 0..4 mod p,
// i.e. sits in [p, 2^130) before the final conditional subtraction.  Returns v, or -1 if no v in 0..4 has a solution below 2^128.
static inline int craft_poly_edge(const StreamState &st, unsigned char *m, size_t mlen, const unsigned char *ad, size_t adlen, unsigned char tag) {
    if (mlen < 16) return -1;
    unsigned char blk[64] = {0};
    blk[0] = tag;
    chacha20_ietf_xor(blk, blk, 64, st.k, 1, st.nonce);
    Bytes c(mlen);
    chacha20_ietf_xor(c.data(), m, mlen, st.k, 2, st.nonce);
    unsigned char ks[16];
    for (int i = 0; i < 16; i++) ks[i] = (unsigned char) (c[(size_t) i] ^ m[i]);
    Bytes c0 = c, c1 = c;
    memset(c0.data(), 0, 16); memset(c1.data(), 0, 16); c1[0] = 1;
    F130 H0 = stream_mac_acc(st, blk, c0.data(), mlen, ad, adlen), H1 = stream_mac_acc(st, blk, c1.data(), mlen, ad, adlen);
    F130 re = f_sub(H1, H0);                      // r^e: the weight of the first ciphertext block
    F130 two128 = f_small(0); two128.l[4] = (uint64_t) 1 << 24;
    F130 inv = f_inv(re);
    for (unsigned v = 0; v < 5; v++) {
        // H(x) = H0 + x * re  (x = value of the 16 ciphertext bytes; the 2^128 pad bit is already inside H0)
        F130 x = f_mul(f_sub(f_small(v), H0), inv);
        if (!f_below_2_128(x)) continue;
        unsigned char xb[16];
        f_to_bytes16(x, xb);
        for (int i = 0; i < 16; i++) m[i] = (unsigned char) (xb[i] ^ ks[i]);
        // self-check
        Bytes cc(mlen);
        chacha20_ietf_xor(cc.data(), m, mlen, st.k, 2, st.nonce);
        F130 H = stream_mac_acc(st, blk, cc.data(), mlen, ad, adlen);
        if (H.l[0] == v && !H.l[1] && !H.l[2] && !H.l[3] && !H.l[4]) return (int) v;
        return -2; // arithmetic slip in the harness
    }
    (void) two128;
    return -1;
}
static inline void stream_advance(StreamState &st, const unsigned char mac[16], unsigned char tag) {
    for (int i = 0; i < 8; i++) st.nonce[4 + i] ^= mac[i];
    uint32_t ctr = ld32(st.nonce) + 1;
    st32(st.nonce, ctr);
    if ((tag & TAG_REKEY) != 0 || ctr == 0) stream_rekey(st);
}
static inline Bytes stream_push(StreamState &st, const unsigned char *m, size_t mlen, const unsigned char *ad, size_t adlen, unsigned char tag) {
    Bytes out(mlen + 17);
    unsigned char blk[64] = {0};
    blk[0] = tag;
    chacha20_ietf_xor(blk, blk, 64, st.k, 1, st.nonce);
    out[0] = blk[0];
    chacha20_ietf_xor(out.data() + 1, m, mlen, st.k, 2, st.nonce);
    stream_mac(out.data() + 1 + mlen, st, blk, out.data() + 1, mlen, ad, adlen);
    stream_advance(st, out.data() + 1 + mlen, tag);
    return out;
}
// returns false (state untouched) on rejection
static inline bool stream_pull(StreamState &st, Bytes &m, unsigned char &tag, const unsigned char *in, size_t inlen, const unsigned char *ad, size_t adlen) {
    if (inlen < 17) return false;
    size_t mlen = inlen - 17;
    unsigned char blk[64] = {0};
    blk[0] = in[0];
    chacha20_ietf_xor(blk, blk, 64, st.k, 1, st.nonce);
    unsigned char t = blk[0];
    blk[0] = in[0];
    unsigned char mac[16];
    stream_mac(mac, st, blk, in + 1, mlen, ad, adlen);
    unsigned char diff = 0;
    for (int i = 0; i < 16; i++) diff |= (unsigned char) (mac[i] ^ in[1 + mlen + i]);
    if (diff) return false;
    m.assign(mlen, 0);
    chacha20_ietf_xor(m.data(), in + 1, mlen, st.k, 2, st.nonce);
    tag = t;
    stream_advance(st, mac, t);
    return true;
}

static inline bool selftest(std::string &why) {
    // RFC 8439 2.3.2 block function vector
    unsigned char key[32], nonce[12] = {0, 0, 0, 9, 0, 0, 0, 0x4a, 0, 0, 0, 0}, out[64];
    for (int i = 0; i < 32; i++) key[i] = (unsigned char) i;
    chacha20_block(out, key, 1, nonce);
    static const unsigned char exp0[16] = {0x10, 0xf1, 0xe7, 0xe4, 0xd1, 0x3b, 0x59, 0x15, 0x50, 0x0f, 0xdd, 0x1f, 0xa3, 0x20, 0x71, 0xc4};
    if (memcmp(out, exp0, 16) != 0) { why = "chacha20 block vector"; return false; }
    // RFC 8439 2.5.2 poly1305 vector
    static const unsigned char pk[32] = {0x85, 0xd6, 0xbe, 0x78, 0x57, 0x55, 0x6d, 0x33, 0x7f, 0x44, 0x52, 0xfe, 0x42, 0xd5, 0x06, 0xa8,
                                         0x01, 0x03, 0x80, 0x8a, 0xfb, 0x0d, 0xb2, 0xfd, 0x4a, 0xbf, 0xf6, 0xaf, 0x41, 0x49, 0xf5, 0x1b};
    const char *msg = "Cryptographic Forum Research Group";
    static const unsigned char ptag[16] = {0xa8, 0x06, 0x1d, 0xc1, 0x30, 0x51, 0x36, 0xc6, 0xc2, 0x2b, 0x8b, 0xaf, 0x0c, 0x01, 0x27, 0xa9};
    Poly1305 p(pk);
    p.update((const unsigned char *) msg, 34);
    unsigned char mac[16];
    p.final(mac);
    if (memcmp(mac, ptag, 16) != 0) { why = "poly1305 vector"; return false; }
    // poly1305 edge: RFC 8439 A.3 #5-ish: r = 2, s = 0, m = ff*16 -> h = 3 after reduction wrap
    {
        unsigned char k2[32] = {0}; k2[0] = 2;
        unsigned char m2[16]; memset(m2, 0xff, 16);
        Poly1305 q(k2); q.update(m2, 16); q.final(mac);
        unsigned char e2[16] = {0}; e2[0] = 3;
        if (memcmp(mac, e2, 16) != 0) { why = "poly1305 A.3 #5"; return false; }
    }
    // HChaCha20 vector from draft-irtf-cfrg-xchacha 2.2.1
    static const unsigned char hn[16] = {0x00, 0x00, 0x00, 0x09, 0x00, 0x00, 0x00, 0x4a, 0x00, 0x00, 0x00, 0x00, 0x31, 0x41, 0x59, 0x27};
    static const unsigned char hexp[8] = {0x82, 0x41, 0x3b, 0x42, 0x27, 0xb2, 0x7b, 0xfe};
    unsigned char hk[32];
    hchacha20(hk, key, hn);
    if (memcmp(hk, hexp, 8) != 0) { why = "hchacha20 vector"; return false; }
    return true;
}

} // namespace ref
