// simrt.cpp: scheduler, TSan-ABI entry points, lock/atomic model (see simrt.hpp).
// Compiled WITHOUT -fsanitize=thread.
#include "simrt.hpp"

#include <cerrno>
#include <csetjmp>

namespace simrt {

Runtime RT;
__thread int tls_tid = -1;
static sem_t g_never; // parked-forever semaphore

static sigjmp_buf g_main_env; // inline-main mode: how the main thread leaves a stopped simulation
static void park_forever() {
    if (RT.main_inline && tls_tid == 0) siglongjmp(g_main_env, 1);
    for (;;) sem_wait(&g_never);
}

static void wait_sem(sem_t *s) { while (sem_wait(s) != 0 && errno == EINTR) {} }

static bool all_finished() {
    for (int i = 0; i < RT.nthreads; i++) if (RT.T[i].state != T_FINISHED && RT.T[i].state != T_DEAD) return false;
    return true;
}

static void end_run() {
    RT.stop_requested = true;
    RT.active = false;
    sem_post(&RT.done);
    if (RT.main_inline && tls_tid != 0) sem_post(&RT.T[0].sem); // wake the main thread if it is parked as a sim thread
}

void fatal(const std::string &cls, const std::string &locus, const std::string &detail) {
    if (RT.fatal_class.empty()) { RT.fatal_class = cls; RT.fatal_locus = locus; RT.fatal_detail = detail; }
    end_run();
    if (tls_tid >= 0) park_forever();
}

static std::string site_name(uintptr_t pc) { return RT.symtab.name(pc ? pc - 1 : 0, true); }

void report_race(const Acc &old, int tid, bool is_write, uintptr_t addr, uintptr_t pc) {
    RaceReport &r = RT.race;
    r.found = true;
    if (addr >= RT.data_lo && addr < RT.data_hi) {
        long off = 0;
        std::string n = RT.symtab.name(addr, false, &off);
        // keep the field suffix the optimiser gives to a split static struct (global.5), it identifies the field
        r.object = n; r.obj_off = off;
    } else {
        Block *b = find_block(addr);
        r.object = b ? std::string("library-heap-block(") + b->kind + ")" : "?";
        r.obj_off = b ? (long) (addr - b->lo) : 0;
    }
    r.site_a = site_name(old.pc); r.site_b = site_name(pc);
    r.tid_a = old.tid; r.tid_b = tid;
    r.kind = std::string(old.is_write ? "write" : "read") + "/" + (is_write ? "write" : "read");
    std::string a = r.site_a, b = r.site_b;
    if (b < a) std::swap(a, b);
    std::string locus = r.object + "+" + std::to_string(r.obj_off) + "|" + a + "|" + b;
    std::string detail = "data race on " + r.object + "+" + std::to_string(r.obj_off) + ": " + (old.is_write ? "write" : "read") + " in " + r.site_a + " by thread " +
                         std::to_string(r.tid_a) + " and " + (is_write ? "write" : "read") + " in " + r.site_b + " by thread " + std::to_string(tid) +
                         " are not ordered by happens-before (step " + std::to_string(RT.steps) + ")";
    fatal("data-race", locus, detail);
}

// ---------------- scheduler ----------------
static int choose_by_strategy(int me, YieldKind k) {
    int runnable[MAXT], n = 0;
    for (int i = 0; i < RT.nthreads; i++) if (RT.T[i].state == T_RUNNABLE) runnable[n++] = i;
    if (n == 0) return -1;
    bool me_ok = me >= 0 && RT.T[me].state == T_RUNNABLE;
    switch (RT.strategy) {
    case S_SEQUENTIAL: {
        if (me_ok) return me;
        for (int id : RT.seq_order) if (id < RT.nthreads && RT.T[id].state == T_RUNNABLE) return id;
        return runnable[0];
    }
    case S_RANDOM: return runnable[RT.sched.below((uint64_t) n)];
    case S_COARSE:
        if (me_ok && k == Y_MEM) return me;
        return runnable[RT.sched.below((uint64_t) n)];
    case S_LOSER_FIRST: {
        unsigned p = (k == Y_LOCKED || k == Y_UNLOCK) ? 70 : (k == Y_MEM ? 4 : 25);
        if (me_ok && RT.sched.below(100) >= p) return me;
        if (me_ok && n > 1) { int pick; do { pick = runnable[RT.sched.below((uint64_t) n)]; } while (pick == me); return pick; }
        return runnable[RT.sched.below((uint64_t) n)];
    }
    case S_PCT: {
        if (me_ok) for (size_t d = 0; d < RT.pct_points.size(); d++) if (RT.pct_points[d] == RT.steps) RT.T[me].prio = (uint32_t) (RT.pct_depth - d); // drop below everyone
        int best = runnable[0];
        for (int i = 1; i < n; i++) if (RT.T[runnable[i]].prio > RT.T[best].prio) best = runnable[i];
        return best;
    }
    }
    return runnable[0];
}

// default policy: keep running the current thread; when it cannot run, the first runnable thread in seq_order,
// then the lowest id.  A schedule is recorded (and replayed) as the list of DEVIATIONS from this policy:
// (decision index, chosen thread).  An empty list is the sequential schedule.
static int default_choice(int me) {
    if (me >= 0 && RT.T[me].state == T_RUNNABLE) return me;
    for (int id : RT.seq_order) if (id >= 0 && id < RT.nthreads && RT.T[id].state == T_RUNNABLE) return id;
    for (int i = 0; i < RT.nthreads; i++) if (RT.T[i].state == T_RUNNABLE) return i;
    return -1;
}
static int choose(int me, YieldKind k) {
    int dflt = default_choice(me);
    if (dflt < 0) return -1;
    int pick;
    if (RT.strategy == S_TRACE) {
        pick = dflt;
        while (RT.trace_pos < RT.trace_in.size() && RT.trace_in[RT.trace_pos].first < RT.decisions) RT.trace_pos++;
        if (RT.trace_pos < RT.trace_in.size() && RT.trace_in[RT.trace_pos].first == RT.decisions) {
            int want = RT.trace_in[RT.trace_pos].second;
            RT.trace_pos++;
            if (want >= 0 && want < RT.nthreads && RT.T[want].state == T_RUNNABLE) pick = want;
        }
    } else pick = choose_by_strategy(me, k);
    if (pick != dflt && RT.recorded.size() < 200000) RT.recorded.push_back({RT.decisions, pick});
    RT.decisions++;
    return pick;
}

static void *thread_main(void *arg);
static void create_thread(int id, int creator) {
    pthread_attr_t at;
    pthread_attr_init(&at);
    pthread_attr_setstacksize(&at, 1 << 20);
    pthread_attr_setdetachstate(&at, PTHREAD_CREATE_DETACHED);
    RT.T[id].created = true;
    if (creator >= 0) {
        // pthread_create: everything the creating thread did so far happens-before the new thread's start
        RT.T[id].vc.join(RT.T[creator].vc);
        RT.T[creator].vc.c[creator]++;
        RT.lazily_created++;
        if (RT.mark && RT.mark[creator]) RT.created_inside_marked++;
    }
    pthread_create(&RT.T[id].th, &at, thread_main, &RT.T[id]);
}

static void switch_to(int me, int next, bool wait_after) {
    if (next == me) return;
    if (!RT.T[next].created) create_thread(next, me);
    RT.switches++;
    if (me >= 0 && RT.T[me].state == T_RUNNABLE) { RT.preemptions++; if (RT.mark && RT.mark[me]) RT.preempt_marked++; }
    RT.cur = next;
    sem_post(&RT.T[next].sem);
    if (wait_after && me >= 0) {
        wait_sem(&RT.T[me].sem);
        if (RT.stop_requested) park_forever();
    }
}

static void reschedule_blocked(int me) {
    // me is not runnable: somebody else must run, or the system is deadlocked
    int next = choose(me, Y_LOCK);
    if (next < 0) {
        std::string who;
        for (int i = 0; i < RT.nthreads; i++) if (RT.T[i].state == T_BLOCKED_MUTEX || RT.T[i].state == T_BLOCKED_SPIN) who += " t" + std::to_string(i);
        fatal("deadlock", "all-blocked", "no runnable thread; blocked:" + who);
    }
    switch_to(me, next, true);
}

void yield_point(YieldKind k, uintptr_t info) {
    int me = tls_tid;
    if (me < 0 || !RT.active) return;
    if (RT.stop_requested) park_forever();
    RT.steps++;
    if (RT.steps > RT.step_cap) fatal("livelock", "step-cap", "no completion within " + std::to_string(RT.step_cap) + " scheduler steps");
    RT.trace.add(((uint64_t) me << 8) | (uint64_t) k);
    RT.trace.add((uint64_t) info);
    int next = choose(me, k);
    if (next >= 0 && next != me) switch_to(me, next, true);
}

// ---------------- threads ----------------
static void *thread_main(void *arg) {
    SimThread *t = (SimThread *) arg;
    tls_tid = t->id;
    simos_reset_thread();
    wait_sem(&t->sem);
    if (RT.stop_requested) park_forever();
    yield_point(Y_START, 0);
    t->body(t->id);
    yield_point(Y_EXIT, 0);
    // thread exit happens-before the join in main
    sync_release((void *) &RT.done, t->id);
    t->state = T_FINISHED;
    if (all_finished()) { end_run(); return nullptr; }
    int next = choose(t->id, Y_EXIT);
    if (next < 0) fatal("deadlock", "all-blocked", "a thread finished and every remaining thread is blocked");
    tls_tid = -1;
    switch_to(t->id, next, false);
    return nullptr;
}

// run n sim threads to completion (or to the first fatal event); called from the main thread.
// classic mode : all n threads are created up front and parked; the main thread only waits.
// inline mode  : the main thread IS thread 0 (the process is single-threaded until the scheduler first picks
//                another thread, which is created at that very moment -- possibly while thread 0 is inside
//                sodium_init()).
void run_threads(int n, void (*body)(int)) {
    static bool once = false;
    if (!once) { sem_init(&g_never, 0, 0); once = true; }
    while (sem_trywait(&RT.done) == 0) {}
    for (int i = 0; i < n; i++) { RT.T[i].body = body; RT.T[i].state = T_RUNNABLE; }
    if (!RT.main_inline) {
        for (int i = 0; i < n; i++) create_thread(i, -1);
        RT.active = true;
        int first = choose(-1, Y_START);
        RT.cur = first;
        sem_post(&RT.T[first].sem);
        wait_sem(&RT.done);
        RT.active = false;
        return;
    }
    RT.T[0].created = true;
    tls_tid = 0;
    RT.cur = 0;
    RT.active = true;
    if (sigsetjmp(g_main_env, 1) == 0) {
        yield_point(Y_START, 0);
        body(0);
        yield_point(Y_EXIT, 0);
        sync_release((void *) &RT.done, 0);
        RT.T[0].state = T_FINISHED;
        if (all_finished()) end_run();
        else {
            int next = choose(0, Y_EXIT);
            if (next < 0) fatal("deadlock", "all-blocked", "the main thread finished and every remaining thread is blocked");
            tls_tid = -1;
            switch_to(0, next, false);
            wait_sem(&RT.done);
        }
    }
    // reached normally, or by siglongjmp when the simulation was stopped while the main thread was inside it
    tls_tid = -1;
    simos_reset_thread();
    RT.active = false;
}

// ---------------- lock model (hooks installed by the engine) ----------------
int hook_mutex_lock(pthread_mutex_t *m) {
    int me = tls_tid;
    if (me < 0 || !RT.active) return simos_real_mutex_lock(m);
    yield_point(Y_LOCK, 1);
    for (;;) {
        auto it = RT.mutex_owner.find(m);
        if (it == RT.mutex_owner.end()) break;
        if (it->second == me) fatal("deadlock", "relock", "thread " + std::to_string(me) + " locks a mutex it already holds");
        RT.T[me].state = T_BLOCKED_MUTEX; RT.T[me].blocked_on = m;
        RT.counters["probe.lock_contended"]++;
        reschedule_blocked(me);
    }
    RT.mutex_owner[m] = me;
    int rc = simos_real_mutex_lock(m);
    sync_acquire(m, me);
    yield_point(Y_LOCKED, 1);
    return rc;
}
int hook_mutex_unlock(pthread_mutex_t *m) {
    int me = tls_tid;
    if (me < 0 || !RT.active) return simos_real_mutex_unlock(m);
    yield_point(Y_UNLOCK, 1);
    auto it = RT.mutex_owner.find(m);
    if (it == RT.mutex_owner.end() || it->second != me) fatal("lock-misuse", "unlock-not-owner", "thread " + std::to_string(me) + " unlocks a mutex it does not hold");
    sync_release_store(m, me);
    RT.mutex_owner.erase(it);
    int rc = simos_real_mutex_unlock(m);
    for (int i = 0; i < RT.nthreads; i++) if (RT.T[i].state == T_BLOCKED_MUTEX && RT.T[i].blocked_on == m) { RT.T[i].state = T_RUNNABLE; RT.T[i].blocked_on = nullptr; }
    yield_point(Y_SYSCALL, 2);
    return rc;
}
int hook_mutex_trylock(pthread_mutex_t *m) {
    int me = tls_tid;
    if (me < 0 || !RT.active) return simos_real_mutex_trylock(m);
    yield_point(Y_LOCK, 3);
    if (RT.mutex_owner.count(m)) return EBUSY;
    RT.mutex_owner[m] = me;
    int rc = simos_real_mutex_trylock(m);
    sync_acquire(m, me);
    return rc;
}
// A timed lock: there is no clock in this simulation, and under arbitrary scheduling delays a deadline can pass at
// any moment while the mutex is held by somebody else.  So whenever the mutex is busy the scheduler's PRNG decides
// between "the deadline passed" (ETIMEDOUT, legal at any time) and "keep waiting" (block until it is released).
int hook_mutex_timedlock(pthread_mutex_t *m, const struct timespec *) {
    int me = tls_tid;
    if (me < 0 || !RT.active) return simos_real_mutex_lock(m);
    yield_point(Y_LOCK, 5);
    for (;;) {
        auto it = RT.mutex_owner.find(m);
        if (it == RT.mutex_owner.end()) break;
        if (it->second == me) return EDEADLK;
        if (RT.sched.below(2) == 0) { RT.counters["fault.timed_lock_deadline_passed"]++; return ETIMEDOUT; }
        RT.T[me].state = T_BLOCKED_MUTEX; RT.T[me].blocked_on = m;
        RT.counters["probe.lock_contended"]++;
        reschedule_blocked(me);
    }
    RT.mutex_owner[m] = me;
    int rc = simos_real_mutex_lock(m);
    sync_acquire(m, me);
    yield_point(Y_LOCKED, 5);
    return rc;
}
int hook_nanosleep(const struct timespec *, struct timespec *) { yield_point(Y_SYSCALL, 4); return 0; }

} // namespace simrt

using namespace simrt;

// ---------------- the ThreadSanitizer compiler ABI, implemented by us ----------------
#define PC ((uintptr_t) __builtin_return_address(0))
extern "C" {
void __tsan_init(void) {}
void __tsan_read1(void *a) { on_access((uintptr_t) a, 1, false, PC); }
void __tsan_read2(void *a) { on_access((uintptr_t) a, 2, false, PC); }
void __tsan_read4(void *a) { on_access((uintptr_t) a, 4, false, PC); }
void __tsan_read8(void *a) { on_access((uintptr_t) a, 8, false, PC); }
void __tsan_read16(void *a) { on_access((uintptr_t) a, 16, false, PC); }
void __tsan_write1(void *a) { on_access((uintptr_t) a, 1, true, PC); }
void __tsan_write2(void *a) { on_access((uintptr_t) a, 2, true, PC); }
void __tsan_write4(void *a) { on_access((uintptr_t) a, 4, true, PC); }
void __tsan_write8(void *a) { on_access((uintptr_t) a, 8, true, PC); }
void __tsan_write16(void *a) { on_access((uintptr_t) a, 16, true, PC); }
void __tsan_unaligned_read2(void *a) { on_access((uintptr_t) a, 2, false, PC); }
void __tsan_unaligned_read4(void *a) { on_access((uintptr_t) a, 4, false, PC); }
void __tsan_unaligned_read8(void *a) { on_access((uintptr_t) a, 8, false, PC); }
void __tsan_unaligned_read16(void *a) { on_access((uintptr_t) a, 16, false, PC); }
void __tsan_unaligned_write2(void *a) { on_access((uintptr_t) a, 2, true, PC); }
void __tsan_unaligned_write4(void *a) { on_access((uintptr_t) a, 4, true, PC); }
void __tsan_unaligned_write8(void *a) { on_access((uintptr_t) a, 8, true, PC); }
void __tsan_unaligned_write16(void *a) { on_access((uintptr_t) a, 16, true, PC); }
void __tsan_read_range(void *a, unsigned long n) { on_access((uintptr_t) a, n, false, PC); }
void __tsan_write_range(void *a, unsigned long n) { on_access((uintptr_t) a, n, true, PC); }
void __tsan_vptr_update(void **, void *) {}
void __tsan_vptr_read(void **) {}
void __tsan_func_entry(void *) {}
void __tsan_func_exit(void) {}
void __tsan_atomic_thread_fence(int) {}
void __tsan_atomic_signal_fence(int) {}

// atomics: real operation + acquire/release on a per-address clock + a yield point.  A thread that keeps
// failing to take a spin lock is parked until somebody stores to that address (spin fairness: under a
// serialising scheduler an unfair spin loop would never end).
static inline bool mo_acq(int mo) { return mo == __ATOMIC_ACQUIRE || mo == __ATOMIC_ACQ_REL || mo == __ATOMIC_SEQ_CST || mo == __ATOMIC_CONSUME; }
static inline bool mo_rel(int mo) { return mo == __ATOMIC_RELEASE || mo == __ATOMIC_ACQ_REL || mo == __ATOMIC_SEQ_CST; }
static void wake_spinners(void *a) {
    for (int i = 0; i < RT.nthreads; i++) if (RT.T[i].state == T_BLOCKED_SPIN && RT.T[i].blocked_on == a) { RT.T[i].state = T_RUNNABLE; RT.T[i].blocked_on = nullptr; RT.T[i].spin_fail = 0; }
}
#define ATOMIC_PRE(a) int me = tls_tid; bool live = me >= 0 && RT.active; if (live) yield_point(Y_ATOMIC, (uintptr_t) (a) - RT.data_lo)
int __tsan_atomic32_exchange(volatile int *a, int v, int mo) {
    ATOMIC_PRE(a);
    int old = __atomic_exchange_n(a, v, __ATOMIC_SEQ_CST);
    if (live) {
        if (mo_acq(mo)) sync_acquire((void *) a, me);
        if (mo_rel(mo)) sync_release((void *) a, me);
        if (old == v && v != 0) { // the usual test-and-set spin: did not get it
            RT.counters["probe.spin_contended"]++;
            if (++RT.T[me].spin_fail > 8) { RT.T[me].state = T_BLOCKED_SPIN; RT.T[me].blocked_on = (void *) a; reschedule_blocked(me); }
        } else { RT.T[me].spin_fail = 0; wake_spinners((void *) a); }
    }
    return old;
}
void __tsan_atomic32_store(volatile int *a, int v, int mo) {
    ATOMIC_PRE(a);
    if (live && mo_rel(mo)) sync_release((void *) a, me);
    __atomic_store_n(a, v, __ATOMIC_SEQ_CST);
    if (live) wake_spinners((void *) a);
}
int __tsan_atomic32_load(const volatile int *a, int mo) {
    ATOMIC_PRE(a);
    int v = __atomic_load_n(a, __ATOMIC_SEQ_CST);
    if (live && mo_acq(mo)) sync_acquire((void *) a, me);
    return v;
}
int __tsan_atomic32_compare_exchange_strong(volatile int *a, int *expected, int desired, int mo, int) {
    ATOMIC_PRE(a);
    bool ok = __atomic_compare_exchange_n(a, expected, desired, false, __ATOMIC_SEQ_CST, __ATOMIC_SEQ_CST);
    if (live) { if (mo_acq(mo)) sync_acquire((void *) a, me); if (ok && mo_rel(mo)) sync_release((void *) a, me); if (ok) wake_spinners((void *) a); }
    return ok;
}
int __tsan_atomic32_compare_exchange_val(volatile int *a, int expected, int desired, int mo, int fmo) {
    int e = expected;
    __tsan_atomic32_compare_exchange_strong(a, &e, desired, mo, fmo);
    return e;
}
int __tsan_atomic32_fetch_add(volatile int *a, int v, int mo) {
    ATOMIC_PRE(a);
    int old = __atomic_fetch_add(a, v, __ATOMIC_SEQ_CST);
    if (live) { if (mo_acq(mo)) sync_acquire((void *) a, me); if (mo_rel(mo)) sync_release((void *) a, me); wake_spinners((void *) a); }
    return old;
}
long __tsan_atomic64_load(const volatile long *a, int mo) {
    ATOMIC_PRE(a);
    long v = __atomic_load_n(a, __ATOMIC_SEQ_CST);
    if (live && mo_acq(mo)) sync_acquire((void *) a, me);
    return v;
}
void __tsan_atomic64_store(volatile long *a, long v, int mo) {
    ATOMIC_PRE(a);
    if (live && mo_rel(mo)) sync_release((void *) a, me);
    __atomic_store_n(a, v, __ATOMIC_SEQ_CST);
    if (live) wake_spinners((void *) a);
}
long __tsan_atomic64_exchange(volatile long *a, long v, int mo) {
    ATOMIC_PRE(a);
    long old = __atomic_exchange_n(a, v, __ATOMIC_SEQ_CST);
    if (live) { if (mo_acq(mo)) sync_acquire((void *) a, me); if (mo_rel(mo)) sync_release((void *) a, me); wake_spinners((void *) a); }
    return old;
}
long __tsan_atomic64_fetch_add(volatile long *a, long v, int mo) {
    ATOMIC_PRE(a);
    long old = __atomic_fetch_add(a, v, __ATOMIC_SEQ_CST);
    if (live) { if (mo_acq(mo)) sync_acquire((void *) a, me); if (mo_rel(mo)) sync_release((void *) a, me); wake_spinners((void *) a); }
    return old;
}
unsigned char __tsan_atomic8_load(const volatile unsigned char *a, int mo) {
    ATOMIC_PRE(a);
    unsigned char v = __atomic_load_n(a, __ATOMIC_SEQ_CST);
    if (live && mo_acq(mo)) sync_acquire((void *) a, me);
    return v;
}
void __tsan_atomic8_store(volatile unsigned char *a, unsigned char v, int mo) {
    ATOMIC_PRE(a);
    if (live && mo_rel(mo)) sync_release((void *) a, me);
    __atomic_store_n(a, v, __ATOMIC_SEQ_CST);
    if (live) wake_spinners((void *) a);
}

// mem* called from instrumented code: TSan leaves these to its runtime's interceptors, so we see them
// through --wrap (only in this engine's link)
void *__real_memcpy(void *, const void *, size_t);
void *__real_memmove(void *, const void *, size_t);
void *__real_memset(void *, int, size_t);
void __real_explicit_bzero(void *, size_t);
void *__wrap_memcpy(void *d, const void *s, size_t n) {
    if (RT.active && tls_tid >= 0 && simos_active() && n) { on_access((uintptr_t) s, n, false, PC); on_access((uintptr_t) d, n, true, PC); }
    return __real_memcpy(d, s, n);
}
void *__wrap_memmove(void *d, const void *s, size_t n) {
    if (RT.active && tls_tid >= 0 && simos_active() && n) { on_access((uintptr_t) s, n, false, PC); on_access((uintptr_t) d, n, true, PC); }
    return __real_memmove(d, s, n);
}
void *__wrap_memset(void *d, int c, size_t n) {
    if (RT.active && tls_tid >= 0 && simos_active() && n) on_access((uintptr_t) d, n, true, PC);
    return __real_memset(d, c, n);
}
void __wrap_explicit_bzero(void *d, size_t n) {
    if (RT.active && tls_tid >= 0 && simos_active() && n) on_access((uintptr_t) d, n, true, PC);
    __real_explicit_bzero(d, n);
}
}
