// Generic simulation driver shared by all engines.
//
//   sweep     : batches of run indices, each batch in a child forked from a zygote that has
//               never called into libsodium (so process-global library state is fresh and
//               process-level knobs -- CPU mask, simulated page size -- can differ per batch);
//               up to W children at a time; results merged in the parent.
//   violation : determinism gate (forked child + fresh exec'd process must reproduce class,
//               locus and digest) -> ddmin over ops + engine-specific simplification, same
//               violation class only -> known-findings match -> replay file + VIOLATION line.
//   replay    : --replay <file> executes the stored plan (not the seed) in a fresh child.
//
// An engine E provides:
//   struct E::Plan { std::vector<Op> ops; ... };   (ops must be a vector: ddmin works on it)
//   static const char *property(), *name(), *level(), *rule();
//   static Json pknobs(uint64_t seed, uint64_t batch, bool thorough);   process-level knobs
//   static void proc_setup(const Json &pk);                              once per child
//   static Plan generate(uint64_t seed, uint64_t run, const Json &pk, bool thorough);
//   static Json to_json(const Plan &);  static Plan from_json(const Json &);
//   static Result execute(const Plan &);
//   static std::vector<Plan> simplify(const Plan &);    argument-level shrink candidates
//   static size_t batch_size(bool thorough);
//   static void describe(Json &evidence_extra);         components / assumptions
#pragma once
#include "json.hpp"
#include "prng.hpp"

#include <algorithm>
#include <cerrno>
#include <csignal>
#include <cstdio>
#include <cstdlib>
#include <cstring>
#include <ctime>
#include <fcntl.h>
#include <fstream>
#include <functional>
#include <map>
#include <set>
#include <sstream>
#include <string>
#include <sys/mman.h>
#include <sys/stat.h>
#include <sys/wait.h>
#include <unistd.h>
#include <unordered_set>
#include <vector>

namespace sim {

struct Result {
    bool violated = false;
    std::string vclass, locus, detail;
    int step = -1;
    uint64_t digest = 0;
    bool nontrivial = false;
    uint64_t steps = 0;
    std::map<std::string, uint64_t> counters;

    void fail(const std::string &cls, const std::string &loc, const std::string &det, int st) {
        if (violated) return; // first violation of a run wins
        violated = true; vclass = cls; locus = loc; detail = det; step = st;
    }
    void count(const std::string &k, uint64_t n = 1) { counters[k] += n; }
    Json to_json() const {
        Json j = Json::object();
        j["violated"] = violated;
        j["class"] = vclass; j["locus"] = locus; j["detail"] = detail; j["step"] = step;
        j["digest"] = hex64(digest); j["nontrivial"] = nontrivial; j["steps"] = steps;
        Json c = Json::object();
        for (auto &kv : counters) c[kv.first] = kv.second;
        j["counters"] = c;
        return j;
    }
    static Result from_json(const Json &j) {
        Result r;
        r.violated = j.at("violated").boolean();
        r.vclass = j.at("class").str(); r.locus = j.at("locus").str(); r.detail = j.at("detail").str();
        r.step = (int) j.at("step").i64(-1);
        r.digest = strtoull(j.at("digest").str().c_str(), nullptr, 16);
        r.nontrivial = j.at("nontrivial").boolean(); r.steps = j.at("steps").u64();
        for (auto &kv : j.at("counters").o) r.counters[kv.first] = kv.second.u64();
        return r;
    }
};

static inline double now_s() {
    struct timespec ts; clock_gettime(CLOCK_MONOTONIC, &ts);
    return ts.tv_sec + ts.tv_nsec * 1e-9;
}

static inline std::string read_file(const std::string &p) {
    std::ifstream f(p, std::ios::binary);
    std::stringstream ss; ss << f.rdbuf();
    return ss.str();
}
static inline void write_file(const std::string &p, const std::string &s) {
    std::string tmp = p + ".tmp";
    { std::ofstream f(tmp, std::ios::binary); f << s; }
    rename(tmp.c_str(), p.c_str());
}

struct KnownFinding { std::string property, vclass, locus, what; };

static inline std::vector<KnownFinding> load_known(const std::string &path) {
    std::vector<KnownFinding> v;
    std::string txt = read_file(path);
    if (txt.empty()) return v;
    Json j = Json::parse(txt);
    for (auto &e : j.at("findings").a)
        v.push_back({e.at("property").str(), e.at("class").str(), e.at("locus").str(), e.at("what").str()});
    return v;
}

struct Options {
    bool thorough = false;
    uint64_t seed = 1;
    uint64_t max_runs = 0;    // 0 = engine default for the tier
    double time_s = 0;        // 0 = engine default for the tier
    int workers = 16;
    std::string replay, oneshot, out, verif_dir = "/verif", out_dir, tag;
    uint64_t determinism = 0; // >0: self-check mode over this many run indices
    uint64_t first_batch = 0; // run indices start at first_batch * batch_size (disjoint ranges per binary)
    bool no_shrink = false;
    std::string self;
};

template <class E> struct Runner {
    typedef typename E::Plan Plan;
    Options opt;
    std::string tmpdir;

    // ---------- executing one plan in a child ----------
    struct ChildOut { bool ok = false; Result r; int status = 0; std::string err; };

    static std::string crash_detail(int status, const std::string &errtxt) {
        std::string d;
        if (WIFSIGNALED(status)) d = "killed by signal " + std::to_string(WTERMSIG(status));
        else d = "exit code " + std::to_string(WEXITSTATUS(status));
        size_t p = errtxt.find("SUMMARY:");
        if (p != std::string::npos) {
            size_t e = errtxt.find('\n', p);
            d += "; " + errtxt.substr(p, e == std::string::npos ? std::string::npos : e - p);
        } else {
            p = errtxt.find("Assertion");
            if (p != std::string::npos) {
                size_t b = errtxt.rfind('\n', p); b = (b == std::string::npos) ? 0 : b + 1;
                size_t e = errtxt.find('\n', p);
                d += "; " + errtxt.substr(b, e == std::string::npos ? std::string::npos : e - b);
            }
        }
        return d;
    }
    static std::string crash_locus(const std::string &errtxt) {
        // "SUMMARY: AddressSanitizer: heap-buffer-overflow /path/file.c:123:4 in func"
        size_t p = errtxt.find("SUMMARY:");
        if (p != std::string::npos) {
            size_t e = errtxt.find('\n', p);
            std::string line = errtxt.substr(p, e == std::string::npos ? std::string::npos : e - p);
            size_t in = line.rfind(" in ");
            if (in != std::string::npos) return line.substr(in + 4);
        }
        size_t a = errtxt.find("Assertion `");
        if (a != std::string::npos) {
            size_t e = errtxt.find('\'', a + 11);
            if (e != std::string::npos) return "assert:" + errtxt.substr(a + 11, e - a - 11);
        }
        return "crash";
    }

    // ---------- watchdog ----------
    // A run that makes no progress (a deadlock or an endless loop in the code under test) must not hang the check: a
    // run is given hang_limit() seconds of wall clock, then its process is killed.  That alone proves nothing (the
    // machine may be overloaded), so it only becomes a "hang" violation if the same plan also runs out of time when
    // re-executed alone in a fresh child and in a fresh process image.
    double hang_limit() const {
        const char *e = getenv("VERIF_HANG_S");
        if (e && atof(e) > 0) return atof(e);
        return opt.thorough ? 600.0 : 12.0;
    }
    // waits for pid; kills it after limit seconds.  returns true if it had to be killed
    static bool wait_limited(pid_t pid, double limit, int &st) {
        double t0 = now_s();
        useconds_t nap = 500;
        for (;;) {
            pid_t p = waitpid(pid, &st, WNOHANG);
            if (p == pid) return false;
            if (p < 0) { st = 0; return false; }
            if (now_s() - t0 > limit) { kill(pid, SIGKILL); waitpid(pid, &st, 0); return true; }
            usleep(nap);
            if (nap < 20000) nap *= 2;
        }
    }
    Result hang_result() const {
        Result r;
        r.fail("hang", "no-progress", "the run did not finish within " + std::to_string((int) hang_limit()) + " s of wall clock and was killed (deadlock or endless loop)", -1);
        r.digest = hash_str(0, "hang");
        return r;
    }

    Result crash_result(int status, const std::string &errtxt) {
        Result r;
        r.fail("crash", crash_locus(errtxt), crash_detail(status, errtxt), -1);
        r.digest = hash_str(0, r.locus.c_str());
        return r;
    }

    // fork: child runs the plan (fresh library state because the parent never called into it)
    typedef std::vector<Plan> Prelude; // plans executed earlier in the same process (same batch child)

    Result run_forked(const Plan &plan, const Prelude &prelude = Prelude()) {
        std::string base = tmpdir + "/one." + std::to_string(getpid());
        std::string outp = base + ".out", errp = base + ".err";
        fflush(stdout); fflush(stderr);
        pid_t pid = fork();
        if (pid == 0) {
            int efd = open(errp.c_str(), O_WRONLY | O_CREAT | O_TRUNC, 0644);
            if (efd >= 0) { dup2(efd, 2); close(efd); }
            E::proc_setup(plan.pk);
            for (const Plan &pp : prelude) (void) E::execute(pp);
            Result r = E::execute(plan);
            write_file(outp, r.to_json().dump());
            _exit(0);
        }
        int st = 0;
        bool killed = wait_limited(pid, hang_limit(), st);
        std::string out = read_file(outp), err = read_file(errp);
        unlink(outp.c_str()); unlink(errp.c_str());
        if (killed) return hang_result();
        if (WIFEXITED(st) && WEXITSTATUS(st) == 0 && !out.empty()) return Result::from_json(Json::parse(out));
        return crash_result(st, err);
    }

    // exec: a brand-new process image (new ASLR layout) runs the plan via --oneshot
    static Json pack(const Plan &plan, const Prelude &prelude) {
        Json j = Json::object();
        Json pl = Json::array();
        for (const Plan &pp : prelude) pl.push(E::to_json(pp));
        j["prelude"] = pl; j["plan"] = E::to_json(plan);
        return j;
    }
    Result run_exec(const Plan &plan, const Prelude &prelude = Prelude()) {
        std::string base = tmpdir + "/exec." + std::to_string(getpid());
        std::string inp = base + ".plan", outp = base + ".out", errp = base + ".err";
        write_file(inp, pack(plan, prelude).dump());
        fflush(stdout); fflush(stderr);
        pid_t pid = fork();
        if (pid == 0) {
            int efd = open(errp.c_str(), O_WRONLY | O_CREAT | O_TRUNC, 0644);
            if (efd >= 0) { dup2(efd, 2); close(efd); }
            int ofd = open(outp.c_str(), O_WRONLY | O_CREAT | O_TRUNC, 0644);
            if (ofd >= 0) { dup2(ofd, 1); close(ofd); }
            execl(opt.self.c_str(), opt.self.c_str(), "--oneshot", inp.c_str(), (char *) nullptr);
            _exit(126);
        }
        int st = 0;
        bool killed = wait_limited(pid, hang_limit(), st);
        std::string out = read_file(outp), err = read_file(errp);
        unlink(inp.c_str()); unlink(outp.c_str()); unlink(errp.c_str());
        if (killed) return hang_result();
        if (WIFEXITED(st) && WEXITSTATUS(st) == 0 && !out.empty()) return Result::from_json(Json::parse(out));
        return crash_result(st, err);
    }

    int oneshot_main() {
        Json in = Json::parse(read_file(opt.oneshot));
        Plan plan = E::from_json(in.at("plan"));
        E::proc_setup(plan.pk);
        for (auto &pj : in.at("prelude").a) (void) E::execute(E::from_json(pj));
        Result r = E::execute(plan);
        std::string s = r.to_json().dump();
        fwrite(s.data(), 1, s.size(), stdout);
        fflush(stdout);
        _exit(0);
    }

    // ---------- shrinking ----------
    static bool same_violation(const Result &a, const Result &b) {
        return b.violated && a.vclass == b.vclass && a.locus == b.locus;
    }

    Plan minimise(const Plan &orig, const Result &target, int budget, int &used, Prelude &prelude) {
        Plan best = orig;
        used = 0;
        // first drop whole earlier plans of the batch (ddmin over the prelude as units)
        {
            size_t n = 2;
            while (!prelude.empty() && used < budget) {
                size_t len = prelude.size();
                if (n > len) n = len;
                size_t chunk = (len + n - 1) / n;
                bool reduced = false;
                for (size_t i = 0; i < len && used < budget; i += chunk) {
                    Prelude cand = prelude;
                    cand.erase(cand.begin() + (long) i, cand.begin() + (long) std::min(len, i + chunk));
                    ++used;
                    if (same_violation(target, run_forked(best, cand))) { prelude = cand; n = std::max<size_t>(n - 1, 2); reduced = true; break; }
                }
                if (!reduced) { if (chunk <= 1) break; n = std::min(len, n * 2); }
            }
        }
        auto test = [&](const Plan &cand) {
            if (used >= budget) return false;
            ++used;
            return same_violation(target, run_forked(cand, prelude));
        };
        // ddmin over ops
        size_t n = 2;
        while (best.ops.size() >= 1 && used < budget) {
            size_t len = best.ops.size();
            if (n > len) n = len;
            if (n == 0) break;
            size_t chunk = (len + n - 1) / n;
            bool reduced = false;
            for (size_t i = 0; i < len && used < budget; i += chunk) {
                Plan cand = best;
                cand.ops.erase(cand.ops.begin() + (long) i, cand.ops.begin() + (long) std::min(len, i + chunk));
                if (test(cand)) { best = cand; n = std::max<size_t>(n - 1, 2); reduced = true; break; }
            }
            if (!reduced) {
                if (chunk <= 1) break;
                n = std::min(len, n * 2);
            }
        }
        // argument-level simplification to a fixpoint
        bool progress = true;
        while (progress && used < budget) {
            progress = false;
            for (const Plan &cand : E::simplify(best)) {
                if (used >= budget) break;
                if (test(cand)) { best = cand; progress = true; break; }
            }
        }
        return best;
    }

    // ---------- sweep ----------
    struct Slot { pid_t pid = 0; uint64_t batch = 0; std::string outp, errp; bool hung = false; };
    struct Shared { volatile uint64_t current_run[64]; volatile double run_started[64]; };

    struct Agg {
        uint64_t evaluations = 0, steps = 0, nontrivial = 0;
        std::unordered_set<uint64_t> distinct;
        std::map<std::string, uint64_t> counters;
        std::vector<Json> samples;
        std::set<std::string> sample_kinds;
        std::vector<std::pair<uint64_t, std::pair<Json, Result>>> violations; // run, plan, result
        std::vector<std::pair<uint64_t, uint64_t>> spot; // (run, digest) of the first run of some batches, re-executed after the sweep
    };

    void child_batch(uint64_t batch, size_t bsz, uint64_t max_runs, const std::string &outp, volatile uint64_t *cur, volatile double *started) {
        Json pk = E::pknobs(opt.seed, batch, opt.thorough);
        E::proc_setup(pk);
        FILE *f = fopen(outp.c_str(), "w");
        std::map<std::string, uint64_t> counters;
        std::set<std::string> kinds_sampled;
        for (uint64_t i = 0; i < bsz; i++) {
            uint64_t run = batch * bsz + i;
            if (run >= max_runs) break;
            *started = now_s(); *cur = run;
            Plan plan = E::generate(opt.seed, run, pk, opt.thorough);
            Result r = E::execute(plan);
            fprintf(f, "R %llu %s %d %llu\n", (unsigned long long) run, hex64(r.digest).c_str(), r.nontrivial ? 1 : 0,
                    (unsigned long long) r.steps);
            for (auto &kv : r.counters) {
                counters[kv.first] += kv.second;
                if (kv.second && kv.first.compare(0, 6, "fault.") == 0 && !kinds_sampled.count(kv.first) && kinds_sampled.size() < 64) {
                    kinds_sampled.insert(kv.first);
                    fprintf(f, "S %s %s\n", kv.first.c_str(), E::to_json(plan).dump().c_str());
                }
            }
            if (i < 3 && batch == opt.first_batch) fprintf(f, "S first%llu %s\n", (unsigned long long) run, E::to_json(plan).dump().c_str());
            if (r.violated) {
                Json v = Json::object();
                v["result"] = r.to_json(); v["plan"] = E::to_json(plan);
                fprintf(f, "V %llu %s\n", (unsigned long long) run, v.dump().c_str());
                break; // state after a violation is not trusted
            }
        }
        *cur = UINT64_MAX;
        for (auto &kv : counters) fprintf(f, "C %s %llu\n", kv.first.c_str(), (unsigned long long) kv.second);
        fprintf(f, "E\n");
        fclose(f);
    }

    void absorb(Agg &agg, const Slot &s, int status, uint64_t crashed_run, size_t bsz) {
        std::string txt = read_file(s.outp);
        std::string err = read_file(s.errp);
        unlink(s.outp.c_str()); unlink(s.errp.c_str());
        bool ended = false;
        std::istringstream in(txt);
        std::string line;
        while (std::getline(in, line)) {
            if (line.empty()) continue;
            char t = line[0];
            try {
            if (t == 'R') {
                unsigned long long run, steps; char dg[32]; int nt;
                if (sscanf(line.c_str(), "R %llu %31s %d %llu", &run, dg, &nt, &steps) == 4) {
                    agg.evaluations++; agg.steps += steps;
                    if (run % bsz == 0 && agg.spot.size() < 4096) agg.spot.push_back({run, strtoull(dg, nullptr, 16)});
                    if (nt) { agg.nontrivial++; agg.distinct.insert(strtoull(dg, nullptr, 16)); }
                }
            } else if (t == 'C') {
                char name[256]; unsigned long long v;
                if (sscanf(line.c_str(), "C %255s %llu", name, &v) == 2) agg.counters[name] += v;
            } else if (t == 'S') {
                size_t sp = line.find(' ', 2);
                std::string kind = line.substr(2, sp - 2);
                if (!agg.sample_kinds.count(kind) && agg.samples.size() < 24) {
                    agg.sample_kinds.insert(kind);
                    Json sj = Json::object();
                    sj["why"] = kind; sj["plan"] = Json::parse(line.substr(sp + 1));
                    agg.samples.push_back(sj);
                }
            } else if (t == 'V') {
                size_t sp = line.find(' ', 2);
                uint64_t run = strtoull(line.c_str() + 2, nullptr, 10);
                Json v = Json::parse(line.substr(sp + 1));
                agg.violations.push_back({run, {v.at("plan"), Result::from_json(v.at("result"))}});
            } else if (t == 'E') ended = true;
            } catch (const std::exception &) { /* a line cut short by a dying child: ignore it */ }
        }
        bool clean = WIFEXITED(status) && WEXITSTATUS(status) == 0 && ended;
        if (s.hung) {
            // killed by the watchdog inside a run: a candidate "hang" (confirmed or dismissed by the re-executions below)
            uint64_t run = crashed_run == UINT64_MAX ? s.batch * bsz : crashed_run;
            Json pk = E::pknobs(opt.seed, s.batch, opt.thorough);
            Plan plan = E::generate(opt.seed, run, pk, opt.thorough);
            agg.violations.push_back({run, {E::to_json(plan), hang_result()}});
            agg.evaluations++;
        } else if (!clean) {
            // the child died inside a run: that run is a crash-class violation of the property
            uint64_t run = crashed_run;
            if (run == UINT64_MAX) run = s.batch * bsz; // died outside any run: attribute to first
            Json pk = E::pknobs(opt.seed, s.batch, opt.thorough);
            Plan plan = E::generate(opt.seed, run, pk, opt.thorough);
            agg.violations.push_back({run, {E::to_json(plan), crash_result(status, err)}});
            agg.evaluations++;
        }
    }

    // returns process exit code
    int sweep_main() {
        double t0 = now_s();
        size_t bsz = E::batch_size(opt.thorough);
        uint64_t max_runs = opt.max_runs ? opt.max_runs : E::default_runs(opt.thorough);
        double budget = opt.time_s > 0 ? opt.time_s : E::default_time(opt.thorough);
        uint64_t nbatches = (max_runs + bsz - 1) / bsz;
        int W = std::max(1, std::min(opt.workers, 64));
        Shared *sh = (Shared *) mmap(nullptr, sizeof(Shared), PROT_READ | PROT_WRITE, MAP_SHARED | MAP_ANONYMOUS, -1, 0);
        std::vector<Slot> slots((size_t) W);
        Agg agg;
        uint64_t next = opt.first_batch;
        nbatches += opt.first_batch;
        max_runs += opt.first_batch * bsz;
        int active = 0;
        bool stop = false;
        while (true) {
            while (!stop && active < W && next < nbatches && now_s() - t0 < budget) {
                int si = -1;
                for (int i = 0; i < W; i++) if (slots[(size_t) i].pid == 0) { si = i; break; }
                Slot &s = slots[(size_t) si];
                s.batch = next++;
                s.outp = tmpdir + "/b." + std::to_string(getpid()) + "." + std::to_string(s.batch) + ".out";
                s.errp = tmpdir + "/b." + std::to_string(getpid()) + "." + std::to_string(s.batch) + ".err";
                sh->current_run[si] = UINT64_MAX; sh->run_started[si] = now_s(); s.hung = false;
                fflush(stdout); fflush(stderr);
                pid_t pid = fork();
                if (pid == 0) {
                    int efd = open(s.errp.c_str(), O_WRONLY | O_CREAT | O_TRUNC, 0644);
                    if (efd >= 0) { dup2(efd, 2); close(efd); }
                    child_batch(s.batch, bsz, max_runs, s.outp, &sh->current_run[si], &sh->run_started[si]);
                    _exit(0);
                }
                s.pid = pid; active++;
            }
            if (active == 0) break;
            int st = 0;
            pid_t p = waitpid(-1, &st, WNOHANG);
            if (p < 0) break;
            if (p == 0) {
                // nobody finished: look for a run that has been going for longer than the limit
                double t = now_s();
                for (int i = 0; i < W; i++) {
                    Slot &s = slots[(size_t) i];
                    if (s.pid != 0 && !s.hung && t - sh->run_started[i] > hang_limit()) { s.hung = true; kill(s.pid, SIGKILL); }
                }
                usleep(2000);
                continue;
            }
            for (int i = 0; i < W; i++) {
                Slot &s = slots[(size_t) i];
                if (s.pid == p) {
                    absorb(agg, s, st, sh->current_run[i], bsz);
                    s.pid = 0; active--;
                    break;
                }
            }
            if (!agg.violations.empty()) stop = true;
        }
        double sweep_s = now_s() - t0;

        // ---- violations ----
        int exit_code = 0;
        std::vector<KnownFinding> known = load_known(opt.verif_dir + "/known_findings.json");
        // by run index, candidates for "hang" last: confirming one of those costs the watchdog time again and again, so they
        // are only looked at when nothing else was found
        std::sort(agg.violations.begin(), agg.violations.end(),
                  [](const std::pair<uint64_t, std::pair<Json, Result>> &a, const std::pair<uint64_t, std::pair<Json, Result>> &b) {
                      bool ha = a.second.second.vclass == "hang", hb = b.second.second.vclass == "hang";
                      return ha != hb ? hb : a.first < b.first;
                  });
        std::set<std::string> seen;
        Json reported = Json::array();
        int nviol = 0, nknown = 0, unconfirmed = 0, slow_runs = 0;
        for (auto &v : agg.violations) {
            const Result &orig = v.second.second;
            std::string key = orig.vclass + "|" + orig.locus;
            if (seen.count(key) || seen.size() >= 3) continue;
            if (orig.vclass == "hang" && nviol > 0) continue;
            seen.insert(key);
            Plan plan = E::from_json(v.second.first);
            // determinism gate: alone in a fresh process first; if that does not reproduce, with the earlier runs of
            // its batch as a prelude (process-level state of the code under test may carry over between runs)
            Prelude prelude;
            Result a = run_forked(plan), b = run_exec(plan);
            bool ok = same_violation(orig, a) && same_violation(orig, b) && a.digest == b.digest &&
                      (orig.vclass == "crash" || a.digest == orig.digest);
            bool was_hang = orig.vclass == "hang";
            if (!ok) {
                uint64_t b0 = (v.first / bsz) * bsz;
                Json pk = E::pknobs(opt.seed, v.first / bsz, opt.thorough);
                for (uint64_t r = b0; r < v.first; r++) prelude.push_back(E::generate(opt.seed, r, pk, opt.thorough));
                a = run_forked(plan, prelude); b = run_exec(plan, prelude);
                ok = same_violation(orig, a) && same_violation(orig, b) && a.digest == b.digest && (orig.vclass == "crash" || a.digest == orig.digest);
                if (ok) printf("NOTE property=%s run=%llu reproduces only after the %zu earlier runs of its batch (state carried inside the code under test)\n", E::property(),
                               (unsigned long long) v.first, prelude.size());
            }
            // The violation itself (class, locus, step) reproduces in all three executions but the event-log digests
            // differ: the CODE UNDER TEST is not a function of its inputs (typically it read uninitialised memory, so
            // incidental output bytes differ from process to process).  That is reported as the violation it is, with a
            // note; only a violation that does not reproduce is a harness matter.
            bool digest_unstable = false;
            if (!ok && same_violation(orig, a) && same_violation(orig, b) && a.step == orig.step && b.step == orig.step && orig.vclass != "crash") {
                ok = true; digest_unstable = true;
                printf("NOTE property=%s run=%llu the violation reproduces in a forked child and in a fresh process (same class, locus and step) but incidental outputs differ between executions: the code under test is not deterministic for identical inputs\n", E::property(), (unsigned long long) v.first);
            }
            if (!ok && was_hang && !a.violated && !b.violated) {
                // it finished when run alone (and with its batch's earlier runs): the machine was slow, not the code
                printf("NOTE property=%s run=%llu exceeded the %d s watchdog inside the sweep but completes when re-executed: not a violation\n", E::property(), (unsigned long long) v.first, (int) hang_limit());
                slow_runs++;
                continue;
            }
            if (!ok) {
                printf("HARNESS-NONDETERMINISM property=%s run=%llu sweep={%s,%s,%s} fork={%d,%s,%s,%s} exec={%d,%s,%s,%s}\n", E::property(),
                       (unsigned long long) v.first, orig.vclass.c_str(), orig.locus.c_str(), hex64(orig.digest).c_str(), a.violated, a.vclass.c_str(),
                       a.locus.c_str(), hex64(a.digest).c_str(), b.violated, b.vclass.c_str(), b.locus.c_str(), hex64(b.digest).c_str());
                printf("  detail: %s\n", orig.detail.c_str());
                unconfirmed++;
                continue;
            }
            int used = 0;
            Prelude full_prelude = prelude;
            // every execution that reproduces a hang costs the full watchdog time: shrink those only a little
            Plan minp = opt.no_shrink ? plan : minimise(plan, orig, was_hang ? 3 : 400, used, prelude);
            Result fin = run_exec(minp, prelude);
            if (!same_violation(orig, fin)) { minp = plan; prelude = full_prelude; fin = b; } // never report an unconfirmed minimisation
            // known finding?
            const KnownFinding *kf = nullptr;
            for (auto &k : known)
                if (k.property == E::property() && k.vclass == fin.vclass && k.locus == fin.locus) kf = &k;
            Json rep = Json::object();
            rep["class"] = fin.vclass; rep["locus"] = fin.locus; rep["detail"] = fin.detail; rep["run"] = v.first;
            rep["ops_before"] = (uint64_t) plan.ops.size(); rep["ops_after"] = (uint64_t) minp.ops.size();
            rep["shrink_executions"] = used;
            if (kf) {
                printf("KNOWN-FINDING: property=%s %s [class=%s locus=%s]\n", E::property(), kf->what.c_str(), fin.vclass.c_str(), fin.locus.c_str());
                rep["known"] = true; nknown++;
            } else {
                Json rf = Json::object();
                rf["property"] = E::property(); rf["engine"] = E::name(); rf["binary"] = opt.tag;
                rf["seed"] = opt.seed; rf["run"] = v.first; rf["plan"] = E::to_json(minp);
                if (!prelude.empty()) { Json pl = Json::array(); for (auto &pp : prelude) pl.push(E::to_json(pp)); rf["prelude"] = pl; }
                Json vi = Json::object();
                vi["class"] = fin.vclass; vi["locus"] = fin.locus; vi["step"] = fin.step; vi["detail"] = fin.detail;
                rf["violation"] = vi; rf["digest"] = hex64(fin.digest);
                if (digest_unstable) rf["digest_unstable"] = true;
                rf["original_ops"] = (uint64_t) plan.ops.size(); rf["minimised_ops"] = (uint64_t) minp.ops.size();
                std::string path = opt.out_dir + "/replays/" + E::property() + "-" + opt.tag + "-" + std::to_string(opt.seed) + "-" + hex64(fin.digest).substr(0, 8) + ".json";
                write_file(path, rf.dump(1));
                printf("VIOLATION property=%s replay=%s\n", E::property(), path.c_str());
                printf("  class=%s locus=%s step=%d ops=%zu (from %zu, %d shrink executions)\n  %s\n", fin.vclass.c_str(), fin.locus.c_str(), fin.step,
                       minp.ops.size(), plan.ops.size(), used, fin.detail.c_str());
                rep["replay"] = path; nviol++;
                if (exit_code == 0) exit_code = 1;
            }
            reported.push(rep);
        }

        // ---- continuous determinism gate: re-execute a sample of runs alone in fresh children; digests must match ----
        uint64_t gate_replayed = 0, gate_matched = 0;
        if ((int) agg.violations.size() == slow_runs && !agg.spot.empty()) {
            Rng pick(opt.seed, "spot");
            size_t want = std::min<size_t>(agg.spot.size(), opt.thorough ? 200 : 40);
            for (size_t k = 0; k < want; k++) {
                auto sp = agg.spot[pick.below(agg.spot.size())];
                Json pk = E::pknobs(opt.seed, sp.first / bsz, opt.thorough);
                Plan plan = E::generate(opt.seed, sp.first, pk, opt.thorough);
                Result r = (k % 10 == 0) ? run_exec(plan) : run_forked(plan);
                gate_replayed++;
                if (!r.violated && r.digest == sp.second) gate_matched++;
                else printf("HARNESS-NONDETERMINISM property=%s run=%llu digest in sweep %s, re-executed alone %s%s\n", E::property(), (unsigned long long) sp.first,
                            hex64(sp.second).c_str(), hex64(r.digest).c_str(), r.violated ? (" violated: " + r.vclass).c_str() : "");
            }
            if (gate_matched != gate_replayed) unconfirmed++;
        }
        if (unconfirmed && exit_code == 0) exit_code = 2; // harness (or un-replayable) trouble, never a property verdict
        // ---- partial evidence ----
        double wall = now_s() - t0;
        Json ev = Json::object();
        ev["property_id"] = E::property(); ev["engine"] = E::name(); ev["binary"] = opt.tag;
        ev["tier"] = opt.thorough ? "thorough" : "quick"; ev["seed"] = opt.seed; ev["level"] = E::level();
        ev["evaluations"] = agg.evaluations; ev["nontrivial"] = agg.nontrivial;
        ev["distinct_nontrivial"] = (uint64_t) agg.distinct.size();
        ev["rule"] = E::rule(); ev["sim_steps"] = agg.steps;
        ev["wall_s"] = wall; ev["sweep_s"] = sweep_s;
        ev["runs_per_hour"] = sweep_s > 0 ? (double) agg.evaluations * 3600.0 / sweep_s : 0.0;
        ev["batches"] = next - opt.first_batch; ev["first_run_index"] = opt.first_batch * (uint64_t) bsz; ev["batch_size"] = (uint64_t) bsz; ev["workers"] = W;
        ev["budget_exhausted"] = next < nbatches;
        Json faults = Json::object(), probes = Json::object(), knobs = Json::object(), other = Json::object();
        for (auto &kv : agg.counters) {
            if (kv.first.compare(0, 6, "fault.") == 0) faults[kv.first.substr(6)] = kv.second;
            else if (kv.first.compare(0, 6, "probe.") == 0) probes[kv.first.substr(6)] = kv.second;
            else if (kv.first.compare(0, 5, "knob.") == 0) knobs[kv.first.substr(5)] = kv.second;
            else other[kv.first] = kv.second;
        }
        ev["faults_fired"] = faults; ev["probes"] = probes; ev["knobs_seen"] = knobs; ev["counters"] = other;
        Json sm = Json::array();
        for (auto &s : agg.samples) sm.push(s);
        ev["samples"] = sm;
        Json dgate = Json::object();
        dgate["replayed"] = gate_replayed; dgate["matched"] = gate_matched;
        ev["determinism_gate"] = dgate;
        ev["violations"] = nviol; ev["known_findings"] = nknown; ev["reports"] = reported;
        ev["harness_error"] = exit_code == 2;
        ev["watchdog"] = Json::object(); ev["watchdog"]["limit_s"] = hang_limit(); ev["watchdog"]["slow_runs_dismissed"] = (uint64_t) slow_runs;
        E::describe(ev);
        if (!opt.out.empty()) write_file(opt.out, ev.dump(1));
        printf("[%s/%s] runs=%llu distinct_nontrivial=%zu steps=%llu sweep=%.1fs wall=%.1fs violations=%d known=%d\n", E::property(), opt.tag.c_str(),
               (unsigned long long) agg.evaluations, agg.distinct.size(), (unsigned long long) agg.steps, sweep_s, wall, nviol, nknown);
        for (auto &kv : agg.counters)
            if (kv.first.compare(0, 6, "probe.") == 0 && kv.second == 0 && opt.thorough)
                printf("COVERAGE-WARNING property=%s probe %s stuck at zero\n", E::property(), kv.first.c_str());
        return exit_code;
    }

    // ---------- replay ----------
    int replay_main() {
        Json rf = Json::parse(read_file(opt.replay));
        Plan plan = E::from_json(rf.at("plan"));
        Prelude prelude;
        for (auto &pj : rf.at("prelude").a) prelude.push_back(E::from_json(pj));
        Result a = run_forked(plan, prelude);
        Result b = run_exec(plan, prelude);
        printf("replay %s: violated=%d class=%s locus=%s step=%d digest=%s (fresh process: violated=%d digest=%s)\n", opt.replay.c_str(), a.violated,
               a.vclass.c_str(), a.locus.c_str(), a.step, hex64(a.digest).c_str(), b.violated, hex64(b.digest).c_str());
        if (a.violated) printf("  %s\n", a.detail.c_str());
        bool unstable_ok = rf.at("digest_unstable").boolean() && a.violated && b.violated && a.vclass == b.vclass && a.locus == b.locus;
        if (!unstable_ok && (a.violated != b.violated || a.digest != b.digest || a.vclass != b.vclass)) {
            printf("HARNESS-NONDETERMINISM property=%s on replay\n", E::property());
            return 2;
        }
        if (rf.has("digest") && a.violated && rf.at("digest").str() != hex64(a.digest))
            printf("  note: digest differs from the recorded one (%s): the tree changed since the file was written\n", rf.at("digest").str().c_str());
        if (a.violated) {
            for (auto &k : load_known(opt.verif_dir + "/known_findings.json"))
                if (k.property == E::property() && k.vclass == a.vclass && k.locus == a.locus) {
                    printf("KNOWN-FINDING: property=%s %s\n", E::property(), k.what.c_str());
                    return 0;
                }
            printf("VIOLATION property=%s replay=%s\n", E::property(), opt.replay.c_str());
            return 1;
        }
        return 0;
    }

    // ---------- determinism self-check ----------
    // Each run index is executed three times: in a batch child (as in a sweep), alone in a forked
    // child, and in a fresh exec'd process.  All digests must agree.
    int determinism_main() {
        size_t bsz = E::batch_size(opt.thorough);
        uint64_t mism = 0, done = 0;
        std::map<uint64_t, uint64_t> batch_digest;
        uint64_t nb = (opt.determinism + bsz - 1) / bsz;
        Shared *sh = (Shared *) mmap(nullptr, sizeof(Shared), PROT_READ | PROT_WRITE, MAP_SHARED | MAP_ANONYMOUS, -1, 0);
        for (uint64_t b = 0; b < nb; b++) {
            std::string outp = tmpdir + "/d." + std::to_string(getpid()) + ".out";
            pid_t pid = fork();
            if (pid == 0) { child_batch(b, bsz, opt.determinism, outp, &sh->current_run[0], &sh->run_started[0]); _exit(0); }
            int st; waitpid(pid, &st, 0);
            std::istringstream in(read_file(outp)); unlink(outp.c_str());
            std::string line;
            while (std::getline(in, line)) {
                unsigned long long run, steps; char dg[32]; int nt;
                if (sscanf(line.c_str(), "R %llu %31s %d %llu", &run, dg, &nt, &steps) == 4) batch_digest[run] = strtoull(dg, nullptr, 16);
            }
        }
        Rng pick(opt.seed, "determinism");
        uint64_t singles = std::min<uint64_t>(opt.determinism, 200);
        for (uint64_t k = 0; k < singles; k++) {
            uint64_t run = pick.below(opt.determinism);
            Json pk = E::pknobs(opt.seed, run / bsz, opt.thorough);
            Plan plan = E::generate(opt.seed, run, pk, opt.thorough);
            Plan rt = E::from_json(Json::parse(E::to_json(plan).dump())); // also checks the JSON round trip
            Result a = run_forked(rt);
            Result b = (k % 8 == 0) ? run_exec(rt) : a;
            done++;
            if (!batch_digest.count(run) || a.digest != batch_digest[run] || b.digest != a.digest) {
                mism++;
                printf("DETERMINISM-MISMATCH run=%llu batch=%s fork=%s exec=%s\n", (unsigned long long) run,
                       batch_digest.count(run) ? hex64(batch_digest[run]).c_str() : "-", hex64(a.digest).c_str(), hex64(b.digest).c_str());
            }
        }
        // digest list, for diffing across invocations / worker counts
        uint64_t all = 0;
        for (auto &kv : batch_digest) all = mix64(all, mix64(kv.first, kv.second));
        printf("[%s/%s] determinism: %zu runs in batches, %llu re-executed singly, mismatches=%llu, digest-of-digests=%s\n", E::property(), opt.tag.c_str(),
               batch_digest.size(), (unsigned long long) done, (unsigned long long) mism, hex64(all).c_str());
        return mism ? 2 : 0;
    }

    int main(int argc, char **argv) {
        opt.self = argv[0];
        {
            char buf[4096]; ssize_t n = readlink("/proc/self/exe", buf, sizeof buf - 1);
            if (n > 0) { buf[n] = 0; opt.self = buf; }
        }
        opt.tag = E::name();
        if (const char *s = getenv("VERIF_SEED")) opt.seed = strtoull(s, nullptr, 10);
        if (const char *s = getenv("VERIF_TIER")) opt.thorough = strcmp(s, "thorough") == 0;
        if (const char *s = getenv("VERIF_DIR")) opt.verif_dir = s;
        for (int i = 1; i < argc; i++) {
            std::string a = argv[i];
            auto nextarg = [&]() -> std::string { return i + 1 < argc ? argv[++i] : ""; };
            if (a == "--tier") opt.thorough = nextarg() == "thorough";
            else if (a == "--seed") opt.seed = strtoull(nextarg().c_str(), nullptr, 10);
            else if (a == "--runs") opt.max_runs = strtoull(nextarg().c_str(), nullptr, 10);
            else if (a == "--time") opt.time_s = atof(nextarg().c_str());
            else if (a == "--workers") opt.workers = atoi(nextarg().c_str());
            else if (a == "--replay") opt.replay = nextarg();
            else if (a == "--oneshot") opt.oneshot = nextarg();
            else if (a == "--out") opt.out = nextarg();
            else if (a == "--tag") opt.tag = nextarg();
            else if (a == "--verif-dir") opt.verif_dir = nextarg();
            else if (a == "--out-dir") opt.out_dir = nextarg();
            else if (a == "--determinism") opt.determinism = strtoull(nextarg().c_str(), nullptr, 10);
            else if (a == "--no-shrink") opt.no_shrink = true;
            else if (a == "--first-batch") opt.first_batch = strtoull(nextarg().c_str(), nullptr, 10);
            else { fprintf(stderr, "unknown argument %s\n", a.c_str()); return 2; }
        }
        if (opt.out_dir.empty()) opt.out_dir = opt.verif_dir;
        tmpdir = opt.out_dir + "/build/run";
        mkdir(opt.out_dir.c_str(), 0755);
        mkdir((opt.out_dir + "/build").c_str(), 0755);
        mkdir(tmpdir.c_str(), 0755);
        mkdir((opt.out_dir + "/replays").c_str(), 0755);
        {
            std::string probe = tmpdir + "/.probe." + std::to_string(getpid());
            write_file(probe, "x");
            if (read_file(probe) != "x") { fprintf(stderr, "cannot write to %s\n", tmpdir.c_str()); return 2; }
            unlink(probe.c_str());
        }
        E::selftest();
        if (!opt.oneshot.empty()) return oneshot_main();
        if (!opt.replay.empty()) return replay_main();
        if (opt.determinism) return determinism_main();
        return sweep_main();
    }
};

} // namespace sim
