// C17 engine: guarded allocations over a simulated MMU (DESIGN.md section 5).
//
// simos owns mmap/munmap/mprotect/mlock/munlock/madvise/sysconf/posix_memalign/free/raise/abort.
// Every mapping call the library makes is mirrored into a model page table (granularity = the
// simulated page size: 4 KiB, 16 KiB or 64 KiB) and forwarded to the kernel, so that real access
// probes (under a SIGSEGV handler) and the model must both agree with the property.
#define SIM_COMMON_IMPL
#include "common.hpp"
#include "runner.hpp"

#include <cerrno>
#include <csetjmp>
#include <sys/mman.h>

using namespace sim;

namespace {

typedef std::vector<unsigned char> Bytes;

#ifndef C17_VARIANT
#define C17_VARIANT "mmap"
#endif

// ---------------- simulated MMU ----------------
struct Region {
    uintptr_t base; size_t len; char kind; // 'M' mmap, 'p' posix_memalign
    std::vector<int> prot;                 // per simulated page
    std::vector<bool> locked;
    uint64_t ordinal;
};
const size_t OS_LIMIT = (size_t) 1 << 26;
struct Mmu {
    size_t P = 4096;
    std::map<uintptr_t, Region> regions;
    uint64_t next_ordinal = 0;
    uint64_t n_map_calls = 0, n_unmap_calls = 0, n_mprotect_einval = 0;
    bool mprotect_fails = false;  // injected fault: every mprotect() inside the current operation fails with ENOMEM
    uint64_t n_mprotect_refused = 0;
    int lock_policy = 0; // 0 succeed, 1 fail ENOMEM, 2 fail EPERM, 3 alternate
    uint64_t lock_calls = 0, lock_failed = 0;
    std::vector<std::string> anomalies;
    Region *find(uintptr_t a) {
        auto it = regions.upper_bound(a);
        if (it == regions.begin()) return nullptr;
        --it;
        if (a >= it->second.base && a < it->second.base + it->second.len) return &it->second;
        return nullptr;
    }
    int prot_at(uintptr_t a) { Region *r = find(a); if (!r) return -1; return r->prot[(a - r->base) / P]; }
} M;

int lock_outcome();
int lock_outcome_peek() { int e = errno; int rc = lock_outcome(); errno = e; return rc; }
void *h_mmap(void *addr, size_t len, int prot, int flags, int fd, off_t off) {
    int d = simos_suspend();
    void *ret = MAP_FAILED;
    M.n_map_calls++;
    if (len > OS_LIMIT && len < ((size_t) 1 << 46) && (flags & MAP_NORESERVE)) {
        // without reservation the kernel hands out address space it cannot back: the mapping succeeds, touching it is what
        // kills the process (here: the pages are simply not accessible)
        void *raw = simos_real_mmap(addr, len, PROT_NONE, flags, fd, off);
        if (raw != MAP_FAILED) {
            Region r; r.base = (uintptr_t) raw; r.len = (len + M.P - 1) / M.P * M.P; r.kind = 'M'; r.prot.assign(1, PROT_NONE); r.locked.assign(1, false); r.ordinal = M.next_ordinal++;
            M.anomalies.push_back("a mapping of " + std::to_string(len) + " bytes was requested without reservation and granted although the machine cannot back it");
            M.regions[r.base] = r;
            ret = raw;
        }
    }
    else if (len == 0 || len > OS_LIMIT) errno = len ? ENOMEM : EINVAL; // the simulated machine has 64 MiB to give
#ifdef MAP_LOCKED
    else if ((flags & MAP_LOCKED) && lock_outcome_peek() != 0) errno = EAGAIN; // locked-memory limit applies inside mmap too
#endif
    else {
        size_t want = (len + M.P - 1) / M.P * M.P;
        unsigned char *raw = (unsigned char *) simos_real_mmap(addr, want + M.P, prot, flags, fd, off);
        if (raw != MAP_FAILED) {
            uintptr_t a = ((uintptr_t) raw + M.P - 1) / M.P * M.P;
            if (a > (uintptr_t) raw) simos_real_munmap(raw, a - (uintptr_t) raw);
            uintptr_t tail = a + want, rawend = (uintptr_t) raw + want + M.P;
            if (rawend > tail) simos_real_munmap((void *) tail, rawend - tail);
            Region r; r.base = a; r.len = want; r.kind = 'M'; r.prot.assign(want / M.P, prot); r.locked.assign(want / M.P, false); r.ordinal = M.next_ordinal++;
            M.regions[a] = r;
            ret = (void *) a;
        }
    }
    simos_resume(d);
    return ret;
}
int h_munmap(void *addr, size_t len) {
    int d = simos_suspend();
    int rc = 0;
    M.n_unmap_calls++;
    auto it = M.regions.find((uintptr_t) addr);
    size_t rl = (len + M.P - 1) / M.P * M.P;
    if (it != M.regions.end() && it->second.kind == 'M' && it->second.len == rl) { M.regions.erase(it); rc = simos_real_munmap(addr, rl); }
    else { M.anomalies.push_back("munmap of a range that is not exactly one mapping"); }
    simos_resume(d);
    return rc;
}
int h_posix_memalign(void **out, size_t al, size_t n) {
    int d = simos_suspend();
    M.n_map_calls++;
    int rc;
    if (n > OS_LIMIT) rc = ENOMEM;
    else {
        size_t want = (n + M.P - 1) / M.P * M.P;
        rc = simos_real_posix_memalign(out, al > M.P ? al : M.P, want);
        if (rc == 0) {
            Region r; r.base = (uintptr_t) *out; r.len = want; r.kind = 'p'; r.prot.assign(want / M.P, PROT_READ | PROT_WRITE); r.locked.assign(want / M.P, false);
            r.ordinal = M.next_ordinal++;
            M.regions[r.base] = r;
        }
    }
    simos_resume(d);
    return rc;
}
void h_free(void *p) {
    if (!p) return;
    int d = simos_suspend();
    auto it = M.regions.find((uintptr_t) p);
    if (it != M.regions.end() && it->second.kind == 'p') {
        M.n_unmap_calls++;
        bool all_rw = true;
        for (int pr : it->second.prot) if (pr != (PROT_READ | PROT_WRITE)) all_rw = false;
        if (!all_rw) {
            M.anomalies.push_back("free() of a block that still has protected pages");
            simos_real_mprotect(p, it->second.len, PROT_READ | PROT_WRITE);
        }
        M.regions.erase(it);
    }
    simos_real_free(p);
    simos_resume(d);
}
int h_mprotect(void *addr, size_t len, int prot) {
    int d = simos_suspend();
    int rc;
    uintptr_t a = (uintptr_t) addr;
    if (a % M.P != 0) { M.n_mprotect_einval++; errno = EINVAL; rc = -1; } // what a kernel with this page size answers
    else if (M.mprotect_fails) { M.n_mprotect_refused++; errno = ENOMEM; rc = -1; } // e.g. the VMA split would exceed vm.max_map_count
    else {
        size_t rl = (len + M.P - 1) / M.P * M.P;
        Region *r = M.find(a);
        if (!r || a + rl > r->base + r->len) { errno = ENOMEM; rc = -1; M.anomalies.push_back("mprotect outside the library's mappings"); }
        else {
            for (size_t i = (a - r->base) / M.P; i < (a - r->base + rl) / M.P; i++) r->prot[i] = prot;
            rc = simos_real_mprotect(addr, rl, prot);
        }
    }
    simos_resume(d);
    return rc;
}
int lock_outcome() {
    M.lock_calls++;
    int pol = M.lock_policy == 3 ? (int) (M.lock_calls % 3) : M.lock_policy;
    if (pol == 1) { M.lock_failed++; errno = ENOMEM; return -1; }
    if (pol == 2) { M.lock_failed++; errno = EPERM; return -1; }
    return 0;
}
int h_mlock(const void *a, size_t n) {
    int rc = lock_outcome();
    if (rc == 0) { Region *r = M.find((uintptr_t) a); if (r) for (size_t i = ((uintptr_t) a - r->base) / M.P; i < r->locked.size() && i * M.P < (uintptr_t) a - r->base + n; i++) r->locked[i] = true; }
    return rc;
}
int h_munlock(const void *a, size_t n) { (void) a; (void) n; return lock_outcome(); }
int h_madvise(void *a, size_t n, int adv) {
    if ((uintptr_t) a % M.P == 0 && M.find((uintptr_t) a)) (void) simos_real_madvise(a, n, adv); // advice is applied for real (it can have visible effects, e.g. across fork)
    // like the kernel: an unaligned or unmapped address is an error whatever the policy says
    if ((uintptr_t) a % M.P != 0) { errno = EINVAL; return -1; }
    if (!M.find((uintptr_t) a)) { errno = ENOMEM; return -1; }
    int rc = lock_outcome();
    return rc;
}
long h_sysconf(int name) { return name == _SC_PAGESIZE ? (long) M.P : simos_real_sysconf(name); }

extern "C" int sodium_crit_leave(void); // private/mutex.h: used only to drop the library lock after an observed termination

// ---------------- termination + probes ----------------
sigjmp_buf g_term_env, g_probe_env;
volatile int g_term_armed = 0, g_probing = 0;
volatile uintptr_t g_fault_addr = 0;
std::string g_term_how;
uint64_t g_unmaps_at_term = 0;

// environment knob: the application has installed a misuse handler that does not return (it unwinds to the
// application's own recovery point, as a language binding that throws would).  Freeing a block with a damaged canary
// must END the process all the same; ending up in that handler instead means the process lives on.
bool g_misuse_handler_installed = false;
uint64_t g_misuse_handler_calls = 0;
void app_misuse_handler(void) {
    g_misuse_handler_calls++;
    if (g_term_armed) { g_term_how = "the application's misuse handler (which does not terminate)"; g_unmaps_at_term = M.n_unmap_calls; siglongjmp(g_term_env, 2); }
}
bool g_signal_ignored = false; // environment knob: the application ignores/blocks the signal, so raise() returns
uint64_t g_raise_returned = 0;
int h_raise(int sig) {
    if (g_term_armed && g_signal_ignored) { g_raise_returned++; return 0; } // the library must still terminate (abort)
    if (g_term_armed) { g_term_how = "raise(" + std::to_string(sig) + ")"; g_unmaps_at_term = M.n_unmap_calls; siglongjmp(g_term_env, 1); }
    return simos_real_raise(sig);
}
void h_abort(void) {
    if (g_term_armed) { g_term_how = "abort()"; g_unmaps_at_term = M.n_unmap_calls; siglongjmp(g_term_env, 1); }
}
void h_assert_fail(const char *e, const char *, unsigned, const char *) {
    if (g_term_armed) { g_term_how = std::string("assert(") + e + ")"; g_unmaps_at_term = M.n_unmap_calls; siglongjmp(g_term_env, 1); }
}
volatile int g_segv_terminates = 0; // inside a free whose mprotect() was made to fail, a real fault is how the process dies
void segv_handler(int sig, siginfo_t *info, void *) {
    if (g_probing) { g_fault_addr = (uintptr_t) info->si_addr; siglongjmp(g_probe_env, 1); }
    if (g_term_armed && g_segv_terminates) { g_term_how = "a fatal SIGSEGV"; g_unmaps_at_term = M.n_unmap_calls; siglongjmp(g_term_env, 1); }
    signal(sig, SIG_DFL);
    simos_real_raise(sig);
}
bool probe_read(uintptr_t a, unsigned char *val) {
    g_probing = 1; g_fault_addr = 0;
    if (sigsetjmp(g_probe_env, 1) == 0) { unsigned char v = *(volatile unsigned char *) a; g_probing = 0; if (val) *val = v; return true; }
    g_probing = 0;
    return false;
}
bool probe_write(uintptr_t a, unsigned char v) {
    g_probing = 1; g_fault_addr = 0;
    if (sigsetjmp(g_probe_env, 1) == 0) { *(volatile unsigned char *) a = v; g_probing = 0; return true; }
    g_probing = 0;
    return false;
}

// ---------------- plan ----------------
enum OpKind { O_MALLOC = 0, O_ALLOCARRAY, O_NOACCESS, O_READONLY, O_READWRITE, O_PROBE, O_WRITE, O_TAMPER, O_FREE, O_FREE_NULL, O_FORK, O_REINIT, O_MLOCK, O_MUNLOCK, O_NKINDS };
const char *op_name[O_NKINDS] = {"malloc", "allocarray", "noaccess", "readonly", "readwrite", "probe", "write", "tamper", "free", "free_null", "fork_and_free_in_child", "sodium_init_again", "mlock_user_region", "munlock_user_region"};
enum { PR_RW = 0, PR_RO = 1, PR_NONE = 2 };
const char *prot_name[3] = {"readwrite", "readonly", "noaccess"};

struct Op {
    int kind = O_MALLOC;
    uint64_t size = 0, count = 0; // malloc: size; allocarray: count x size
    uint32_t idx = 0;             // which live allocation (mod live count)
    uint32_t a = 0, b = 0;        // offsets / byte index / value
    bool fault = false;           // free / protection ops: mprotect() fails with ENOMEM while this operation runs
};
struct PlanT { Json pk; uint64_t content_seed = 0; int lock_policy = 0; bool signal_ignored = false; bool misuse_handler = false; std::vector<Op> ops; };

struct Alloc { uintptr_t p; size_t size; int prot; bool canary_ok; Bytes shadow; uintptr_t region; uint64_t id; unsigned char tamper[16]; };

struct Exec {
    const PlanT &plan;
    Result res;
    Digest dg;
    std::vector<Alloc> live;
    uint64_t next_id = 0;
    int step = 0;
    explicit Exec(const PlanT &p) : plan(p) {}

    std::string sizeclass(size_t size) {
        size_t P = M.P, w = size + 16;
        if (size == 0) return "size=0";
        if (w % P == 0) return "size+16=k*page";
        if (size % P == 0) return "size=k*page";
        if (w % P < 16) return "size+16=k*page+small";
        if (size % 16) return "size%16!=0";
        return "generic";
    }

    // everything the property promises about a fresh allocation
    void check_fresh(Alloc &al, const char *api) {
        size_t P = M.P;
        uintptr_t p = al.p, end = p + al.size;
        std::string sc = sizeclass(al.size);
        Region *r = M.find(p ? p - 1 : 0);
        if (!r || end > r->base + r->len) { res.fail("not-in-mapping", api, "returned pointer is not inside a mapping made for it", step); return; }
        al.region = r->base;
        // non-zero fill
        for (size_t i = 0; i < al.size; i++) {
            unsigned char v = ((unsigned char *) p)[i];
            if (v == 0) { res.fail("zero-fill", sc, std::string(api) + "(" + std::to_string(al.size) + "): byte " + std::to_string(i) + " of the new allocation is zero (must be a non-zero pattern)", step); return; }
        }
        // last byte immediately followed by an inaccessible page
        if (end % P != 0) { res.fail("slack-before-guard", sc, std::string(api) + "(" + std::to_string(al.size) + "): the byte after the allocation is " + std::to_string(P - end % P) + " bytes short of a page boundary (page " + std::to_string(P) + ")", step); return; }
        if (M.prot_at(end) != PROT_NONE) { res.fail("no-trailing-guard", sc, std::string(api) + "(" + std::to_string(al.size) + "): the page after the allocation is not an inaccessible page of its mapping (model prot " + std::to_string(M.prot_at(end)) + ")", step); return; }
        unsigned char v;
        if (probe_read(end, &v)) { res.fail("overflow-not-trapped", sc, std::string(api) + "(" + std::to_string(al.size) + "): reading the first byte past the end did not fault", step); return; }
        if (g_fault_addr != end) { res.fail("harness-probe", "fault-address", "fault address differs from probed address", step); return; }
        if (al.size && probe_write(end, 0)) { res.fail("overflow-not-trapped", sc, "writing the first byte past the end did not fault", step); return; }
        res.count("probe.overflow_trapped");
        // canary area readable, inside the mapping, and the user region read/write
        for (int k = 1; k <= 16; k++) {
            if (M.prot_at(p - (uintptr_t) k) != (PROT_READ | PROT_WRITE) || !probe_read(p - (uintptr_t) k, &v)) { res.fail("canary-area-inaccessible", sc, "byte " + std::to_string(-k) + " before the allocation is not readable", step); return; }
        }
        if (al.size) {
            unsigned char first = ((unsigned char *) p)[0], last = ((unsigned char *) p)[al.size - 1];
            if (!probe_write(p, first) || !probe_write(end - 1, last)) { res.fail("fresh-not-writable", sc, "a fresh allocation is not writable over its whole length", step); return; }
        }
        al.shadow.assign((unsigned char *) p, (unsigned char *) p + al.size);
        res.count("probe.sizeclass." + sc);
    }

    // the model's view of an allocation must match the harness's
    void check_model(const Alloc &al, const char *when) {
        static const int want[3] = {PROT_READ | PROT_WRITE, PROT_READ, PROT_NONE};
        size_t P = M.P;
        uintptr_t lo = (al.p - 16) / P * P, hi = al.p + al.size; // pages holding canary and user bytes
        for (uintptr_t a = lo; a < hi || a == lo; a += P) {
            int pr = M.prot_at(a);
            if (pr != want[al.prot]) {
                res.fail("protection-not-whole-region", std::string(prot_name[al.prot]) + "/" + when, "allocation #" + std::to_string(al.id) + " (size " + std::to_string(al.size) + ", state " + prot_name[al.prot] + "): page at offset " + std::to_string((long) (a - al.p)) + " has protection " + std::to_string(pr) + " in the page table", step);
                return;
            }
            if (a + P < a) break;
        }
        if (M.prot_at(al.p + al.size) != PROT_NONE) res.fail("guard-lost", when, "the page after allocation #" + std::to_string(al.id) + " is no longer inaccessible", step);
    }

    std::vector<size_t> probe_offsets(const Alloc &al, uint32_t seed) {
        std::vector<size_t> o;
        if (!al.size) return o;
        o.push_back(0); o.push_back(al.size - 1); o.push_back(al.size / 2); o.push_back(seed % al.size);
        size_t P = M.P;
        for (uintptr_t b = (al.p / P + 1) * P; b < al.p + al.size; b += P) { o.push_back(b - al.p); o.push_back(b - al.p - 1); }
        return o;
    }

    // real accesses must behave as the protection state says
    void check_access(Alloc &al, uint32_t seed, const char *when) {
        std::string loc = std::string(prot_name[al.prot]) + "/" + when;
        for (size_t off : probe_offsets(al, seed)) {
            unsigned char v = 0;
            bool r = probe_read(al.p + off, &v);
            if (al.prot == PR_NONE) {
                if (r) { res.fail("noaccess-readable", loc, "allocation #" + std::to_string(al.id) + " (size " + std::to_string(al.size) + ") is readable at offset " + std::to_string(off) + " in the no-access state", step); return; }
                continue;
            }
            if (!r) { res.fail("readable-faults", loc, "allocation #" + std::to_string(al.id) + " (size " + std::to_string(al.size) + ") faults on read at offset " + std::to_string(off) + " in state " + prot_name[al.prot], step); return; }
            if (v != al.shadow[off]) { res.fail("contents-changed", loc, "byte at offset " + std::to_string(off) + " changed", step); return; }
            bool w = probe_write(al.p + off, v);
            if (al.prot == PR_RO && w) { res.fail("readonly-writable", loc, "allocation #" + std::to_string(al.id) + " is writable at offset " + std::to_string(off) + " in the read-only state", step); return; }
            if (al.prot == PR_RW && !w) { res.fail("readwrite-not-writable", loc, "allocation #" + std::to_string(al.id) + " faults on write at offset " + std::to_string(off) + " in the read-write state", step); return; }
        }
        res.count(std::string("probe.access_checked.") + prot_name[al.prot]);
    }

    void cross_check(const char *when) {
        for (auto &al : live) { if (res.violated) return; check_model(al, when); }
        if (!M.anomalies.empty()) res.fail("os-misuse", when, M.anomalies[0], step);
    }

    void do_malloc(const Op &op) {
        bool arr = op.kind == O_ALLOCARRAY;
        const char *api = arr ? "sodium_allocarray" : "sodium_malloc";
        size_t P = M.P;
        unsigned __int128 prod = arr ? (unsigned __int128) op.count * op.size : (unsigned __int128) op.size;
        bool overflow = prod > (unsigned __int128) SIZE_MAX;
        size_t size = (size_t) prod;
        // oversized: the request plus the allocator's own overhead (canary, rounding to a page, header page and two
        // guard pages) does not fit in size_t -- this includes the documented "within four pages of SIZE_MAX"
        unsigned __int128 total = ((prod + 16 + P - 1) / P) * P + 3 * (unsigned __int128) P;
        bool oversized = !overflow && total > (unsigned __int128) SIZE_MAX;
        bool documented_threshold = !overflow && size >= SIZE_MAX - 4 * P;
        bool huge = !overflow && !oversized && size > ((size_t) 1 << 26);
        if (live.size() >= 6 && !overflow && !oversized && !huge) return;
        uint64_t maps0 = M.n_map_calls;
        errno = 0;
        void *p;
        { LibScope l; p = arr ? sodium_allocarray((size_t) op.count, (size_t) op.size) : sodium_malloc((size_t) op.size); }
        int e = errno;
        dg.add((uint64_t) (p != nullptr)); dg.add((uint64_t) (overflow * 4 + oversized * 2 + huge));
        if (overflow || oversized) {
            const char *cls = overflow ? "overflow" : documented_threshold ? "oversized" : "oversized-by-overhead";
            std::string what = arr ? "sodium_allocarray(" + std::to_string(op.count) + ", " + std::to_string(op.size) + ")" : "sodium_malloc(" + std::to_string(op.size) + ")";
            if (p) { res.fail(std::string(cls) + "-not-rejected", api, what + " returned a pointer although the request " + (overflow ? "overflows size_t" : "does not fit in size_t once the allocator's overhead is added"), step); return; }
            if (e != ENOMEM) { res.fail(std::string(cls) + "-wrong-errno", api, what + " failed with errno " + std::to_string(e) + ", not ENOMEM", step); return; }
            // (whether the OS was asked before failing is not constrained: only the clean ENOMEM failure is promised)
            if (M.n_map_calls != maps0) res.count("probe.rejected_request_reached_os");
            res.count(std::string("probe.") + cls + "_rejected");
            return;
        }
        if (huge) {
            // cannot be satisfied by the (simulated) OS: must fail cleanly
            if (p) { res.fail("huge-not-rejected", api, "a request of " + std::to_string(size) + " bytes succeeded", step); return; }
            // the mmap build reports the kernel's ENOMEM; posix_memalign() returns its error instead of setting errno,
            // so nothing is demanded there (DESIGN 11, item 5)
            if (std::string(C17_VARIANT) == "mmap" && e != ENOMEM) { res.fail("huge-wrong-errno", api, "a request of " + std::to_string(size) + " bytes that the OS refused with ENOMEM failed with errno " + std::to_string(e), step); return; }
            res.count("probe.huge_rejected");
            return;
        }
        if (!p) { res.fail("alloc-failed", api, std::string(api) + " of " + std::to_string(size) + " bytes returned NULL (errno " + std::to_string(e) + ")", step); return; }
        Alloc al; al.p = (uintptr_t) p; al.size = size; al.prot = PR_RW; al.canary_ok = true; al.id = next_id++; al.region = 0; memset(al.tamper, 0, sizeof al.tamper);
        check_fresh(al, api);
        if (res.violated) return;
        live.push_back(al);
        cross_check("after-alloc");
    }

    void do_protect(const Op &op) {
        if (live.empty()) return;
        Alloc &al = live[op.idx % live.size()];
        int want = op.kind == O_NOACCESS ? PR_NONE : op.kind == O_READONLY ? PR_RO : PR_RW;
        int rc;
        M.mprotect_fails = op.fault;
        { LibScope l; rc = want == PR_NONE ? sodium_mprotect_noaccess((void *) al.p) : want == PR_RO ? sodium_mprotect_readonly((void *) al.p) : sodium_mprotect_readwrite((void *) al.p); }
        M.mprotect_fails = false;
        dg.add((uint64_t) rc);
        if (op.fault) {
            // the kernel refused: nothing is promised about the return value, but the allocation is still in its old state,
            // stays usable as such, and later transitions and the free must work as if this call had not been made
            res.count("fault.mprotect_enomem_in_transition");
            cross_check("after-failed-transition");
            if (!res.violated) check_access(al, op.a, "after-failed-transition");
            return;
        }
        res.count(std::string("fault.transition.") + prot_name[al.prot] + "->" + prot_name[want]);
        if (rc != 0) { res.fail("mprotect-failed", prot_name[want], std::string("sodium_mprotect_") + prot_name[want] + " returned " + std::to_string(rc), step); return; }
        al.prot = want;
        cross_check("after-transition");
        if (!res.violated) check_access(al, op.a, "after-transition");
    }

    void do_probe(const Op &op) {
        if (live.empty()) return;
        Alloc &al = live[op.idx % live.size()];
        check_access(al, op.a, "probe");
        if (res.violated) return;
        unsigned char v;
        if (probe_read(al.p + al.size, &v)) res.fail("overflow-not-trapped", prot_name[al.prot], "reading past the end of allocation #" + std::to_string(al.id) + " no longer faults", step);
    }

    void do_write(const Op &op) {
        if (live.empty()) return;
        Alloc &al = live[op.idx % live.size()];
        if (al.prot != PR_RW || !al.size) return;
        size_t off = op.a % al.size;
        unsigned char v = (unsigned char) (op.b | 1);
        if (!probe_write(al.p + off, v)) { res.fail("readwrite-not-writable", "write", "write faulted in the read-write state", step); return; }
        al.shadow[off] = v;
    }

    // the application locks / unlocks (and thereby wipes) the user region of a guarded allocation itself: legal, and
    // nothing outside [p, p+size) may change -- the canary in front of it in particular
    void do_lock(const Op &op) {
        if (live.empty()) return;
        Alloc &al = live[op.idx % live.size()];
        if (op.kind == O_MUNLOCK && al.prot != PR_RW) return; // unlocking wipes the region: it must be writable
        int rc;
        { LibScope l; rc = op.kind == O_MLOCK ? sodium_mlock((void *) al.p, al.size) : sodium_munlock((void *) al.p, al.size); }
        dg.add((uint64_t) rc);
        res.count(op.kind == O_MLOCK ? "fault.app_mlock_on_guarded_region" : "fault.app_munlock_on_guarded_region");
        if (al.prot != PR_NONE) for (size_t i = 0; i < al.size; i++) al.shadow[i] = ((unsigned char *) al.p)[i]; // contents after a wipe are whatever they are now
        cross_check("after-lock-call");
        if (!res.violated) check_access(al, op.a, "after-lock-call");
    }

    void do_tamper(const Op &op) {
        if (live.empty()) return;
        Alloc &al = live[op.idx % live.size()];
        if (al.prot != PR_RW) return; // an underflow needs a writable page
        uintptr_t a = al.p - 1 - (op.a % 16);
        unsigned char v;
        if (!probe_read(a, &v) || !probe_write(a, (unsigned char) (v ^ (1u << (op.b % 8))))) { res.fail("canary-area-inaccessible", "tamper", "cannot write the bytes before the allocation", step); return; }
        al.tamper[op.a % 16] ^= (unsigned char) (1u << (op.b % 8));
        al.canary_ok = true; // two flips of the same bit restore the canary
        for (unsigned char t : al.tamper) if (t) al.canary_ok = false;
        res.count("fault.underflow_byte_-" + std::to_string(1 + op.a % 16));
    }

    void do_free(const Op &op) {
        if (live.empty()) return;
        size_t i = op.idx % live.size();
        Alloc al = live[i];
        uint64_t unmaps0 = M.n_unmap_calls;
        size_t regions0 = M.regions.size();
        bool terminated = false;
        g_term_how.clear();
        M.mprotect_fails = op.fault;
        g_segv_terminates = op.fault;
        if (sigsetjmp(g_term_env, 1) == 0) {
            g_term_armed = 1;
            simos_enter();
            sodium_free((void *) al.p);
            simos_leave();
            g_term_armed = 0;
        } else {
            g_term_armed = 0;
            simos_reset_thread();
            terminated = true;
            (void) sodium_crit_leave(); // whatever path ended the process may have been holding the library lock
        }
        M.mprotect_fails = false; g_segv_terminates = 0;
        if (terminated && g_term_how.compare(0, 17, "the application's") == 0) {
            res.fail(al.canary_ok ? "free-terminated" : "underflow-not-terminated", "misuse-handler", "sodium_free of allocation #" + std::to_string(al.id) + (al.canary_ok ? " (intact)" : " (canary altered)") +
                     " ended in " + g_term_how + ": the process is not terminated", step);
            live.erase(live.begin() + (long) i);
            return;
        }
        dg.add((uint64_t) terminated);
        if (op.fault) res.count("fault.mprotect_enomem_in_free");
        res.count(std::string("fault.free_from.") + prot_name[al.prot]);
        live.erase(live.begin() + (long) i);
        if (!al.canary_ok) {
            if (!terminated) { res.fail("underflow-not-detected", "free", "sodium_free of allocation #" + std::to_string(al.id) + " (size " + std::to_string(al.size) + ") returned normally although a byte before it was altered", step); return; }
            if (g_unmaps_at_term != unmaps0) { res.fail("unmapped-before-termination", "free", "memory was released before the tampered canary was noticed", step); return; }
            res.count("probe.underflow_terminated");
            // reclaim through the model so that later operations stay valid
            auto it = M.regions.find(al.region);
            if (it != M.regions.end()) {
                if (it->second.kind == 'M') simos_real_munmap((void *) it->second.base, it->second.len);
                else { simos_real_mprotect((void *) it->second.base, it->second.len, PROT_READ | PROT_WRITE); simos_real_free((void *) it->second.base); }
                M.regions.erase(it);
            }
            return;
        }
        if (op.fault) {
            // mprotect() failed inside the free of an intact block: whether the free completes or the process dies on a page
            // it could not make writable is not constrained; only a tampered canary going unnoticed (above) is a violation
            M.anomalies.clear();
            auto it = M.regions.find(al.region);
            if (it != M.regions.end()) {
                if (it->second.kind == 'M') simos_real_munmap((void *) it->second.base, it->second.len);
                else { simos_real_mprotect((void *) it->second.base, it->second.len, PROT_READ | PROT_WRITE); simos_real_free((void *) it->second.base); }
                M.regions.erase(it);
            }
            res.count(terminated ? "probe.faulted_free_died" : "probe.faulted_free_completed");
            return;
        }
        if (terminated) { res.fail("free-terminated", prot_name[al.prot], "sodium_free of an intact allocation (state " + std::string(prot_name[al.prot]) + ", size " + std::to_string(al.size) + ") terminated the process via " + g_term_how, step); return; }
        if (M.regions.count(al.region)) { res.fail("free-leaked-mapping", prot_name[al.prot], "the allocation's mapping is still (partly) mapped after sodium_free", step); return; }
        if (M.regions.size() != regions0 - 1) { res.fail("free-unmapped-other", prot_name[al.prot], "sodium_free changed the number of mappings by " + std::to_string((long) M.regions.size() - (long) regions0), step); return; }
        res.count("probe.freed_ok");
        cross_check("after-free");
    }

    // fork(): the child inherits every guarded allocation; contents, canaries and protections must be what they were,
    // and freeing each of them in the child must work exactly as in the parent
    void do_fork() {
        fflush(stdout); fflush(stderr);
        pid_t pid = fork();
        if (pid == 0) {
            for (auto &al : live) {
                if (al.prot == PR_NONE) continue;
                for (size_t i = 0; i < al.size; i += (al.size > 4096 ? 97 : 1)) {
                    unsigned char v = 0;
                    if (!probe_read(al.p + i, &v) || v != al.shadow[i]) _exit(10);
                }
            }
            for (auto &al : live) {
                bool expect_term = !al.canary_ok;
                if (sigsetjmp(g_term_env, 1) == 0) { g_term_armed = 1; simos_enter(); sodium_free((void *) al.p); simos_leave(); g_term_armed = 0; if (expect_term) _exit(12); }
                else { g_term_armed = 0; simos_reset_thread(); if (!expect_term) _exit(11); }
            }
            _exit(0);
        }
        int st = 0;
        waitpid(pid, &st, 0);
        res.count("fault.fork");
        dg.add((uint64_t) st);
        if (WIFEXITED(st) && WEXITSTATUS(st) == 0) { res.count("probe.child_after_fork_ok"); return; }
        if (WIFEXITED(st) && WEXITSTATUS(st) == 10) res.fail("contents-lost-after-fork", "fork", "a guarded allocation's contents differ in the child after fork()", step);
        else if (WIFEXITED(st) && WEXITSTATUS(st) == 11) res.fail("free-terminated-after-fork", "fork", "sodium_free() of an intact guarded allocation terminated the child after fork()", step);
        else if (WIFEXITED(st) && WEXITSTATUS(st) == 12) res.fail("underflow-not-detected", "fork", "a tampered allocation was freed normally in the child after fork()", step);
        else res.fail("crash", "fork-child", "the child crashed using/freeing inherited guarded allocations (status " + std::to_string(st) + ")", step);
    }

    Result run() {
        M.lock_policy = plan.lock_policy; M.lock_calls = 0; // (the alternating policy counts calls: per run, not per process)
        g_signal_ignored = plan.signal_ignored;
        if (plan.misuse_handler != g_misuse_handler_installed) { LibScope l; sodium_set_misuse_handler(plan.misuse_handler ? app_misuse_handler : nullptr); g_misuse_handler_installed = plan.misuse_handler; }
        uint64_t raise_ret0 = g_raise_returned;
        M.anomalies.clear();
        uint64_t lock_failed0 = M.lock_failed;
        for (size_t i = 0; i < plan.ops.size() && !res.violated; i++) {
            step = (int) i;
            const Op &op = plan.ops[i];
            dg.add((uint64_t) op.kind);
            switch (op.kind) {
            case O_MALLOC: case O_ALLOCARRAY: do_malloc(op); break;
            case O_NOACCESS: case O_READONLY: case O_READWRITE: do_protect(op); break;
            case O_PROBE: do_probe(op); break;
            case O_WRITE: do_write(op); break;
            case O_TAMPER: do_tamper(op); break;
            case O_FREE: do_free(op); break;
            case O_FREE_NULL: { LibScope l; sodium_free(nullptr); break; }
            case O_FORK: if (!live.empty()) do_fork(); break;
            case O_MLOCK: case O_MUNLOCK: do_lock(op); break;
            case O_REINIT: { int rc; { LibScope l; rc = sodium_init(); } dg.add((uint64_t) rc); res.count("fault.sodium_init_again"); cross_check("after-reinit"); break; }
            }
            res.steps++;
        }
        // tear down: every remaining allocation must still be freeable from whatever state it is in
        step = (int) plan.ops.size();
        while (!res.violated && !live.empty()) { Op f; f.kind = O_FREE; f.idx = 0; do_free(f); }
        if (!res.violated && !M.regions.empty()) res.fail("mapping-leak", "end", std::to_string(M.regions.size()) + " mapping(s) made by the library are still mapped after everything was freed", step);
        // leave the child clean for the next run of the batch
        for (auto &kv : M.regions) { if (kv.second.kind == 'M') simos_real_munmap((void *) kv.second.base, kv.second.len); }
        M.regions.clear(); live.clear(); M.anomalies.clear();
        if (M.lock_failed != lock_failed0) res.count("fault.mlock_madvise_failed", M.lock_failed - lock_failed0);
        if (g_raise_returned != raise_ret0) res.count("fault.signal_ignored_raise_returned", g_raise_returned - raise_ret0);
        res.count(std::string("knob.signal_ignored=") + (plan.signal_ignored ? "yes" : "no"));
        res.count(std::string("knob.nonreturning_misuse_handler=") + (plan.misuse_handler ? "yes" : "no"));
        res.digest = dg.value();
        res.nontrivial = true;
        res.count("knob.page_size=" + std::to_string(M.P));
        res.count("knob.lock_policy=" + std::to_string(plan.lock_policy));
        return res;
    }
};

struct C17 {
    typedef PlanT Plan;
    static const char *property() { return "C17"; }
    static const char *name() { return "c17_guard"; }
    static const char *level() { return "exploration"; }
    static const char *rule() {
        return "seeded histories of <=40 ops {malloc(size), allocarray(count,size), noaccess/readonly/readwrite(i), probe(i), write(i), tamper(i, canary byte k, bit), free(i), free(NULL), fork, sodium_init() again} "
               "over <=6 live guarded allocations, on a simulated MMU with page size 4K/16K/64K (knob) and mlock/madvise failing by policy (knob). sizes: k*page+d for k in 0..3 and "
               "d in {-17..17}, every residue mod 16, random, sizes near SIZE_MAX, 2^27..2^62; (count,size) pairs around every overflow boundary. After every op the model page table is "
               "checked for ALL live allocations and real accesses are probed under a SIGSEGV handler. every run is non-trivial (at least one allocation is placed and probed); "
               "distinct = distinct digests of (ops, sizes, outcomes)";
    }
    static size_t batch_size(bool) { return 200; }
    static uint64_t default_runs(bool thorough) { return thorough ? 20000000 : 2000000; }
    static double default_time(bool thorough) { return thorough ? 250 : 12; }
    static void selftest() {}
    static Json pknobs(uint64_t seed, uint64_t batch, bool) {
        Rng r(mix64(seed, batch), "pknobs");
        Json pk = Json::object();
        pk["page_size"] = (uint64_t) r.pick<uint64_t>({4096, 4096, 16384, 65536});
        pk["cpu_disable"] = cpu_masks()[r.below(cpu_masks().size())];
        pk["alloc_variant"] = C17_VARIANT;
        return pk;
    }
    static void proc_setup(const Json &pk) {
        M.P = (size_t) pk.at("page_size").u64(4096);
        _sodium_verif_cpu_disable_mask = (unsigned) pk.at("cpu_disable").u64();
        simos_hooks.mmap_ = h_mmap; simos_hooks.munmap_ = h_munmap; simos_hooks.mprotect_ = h_mprotect; simos_hooks.mlock_ = h_mlock; simos_hooks.munlock_ = h_munlock;
        simos_hooks.madvise_ = h_madvise; simos_hooks.sysconf_ = h_sysconf; simos_hooks.raise_ = h_raise; simos_hooks.abort_ = h_abort; simos_hooks.assert_fail_ = h_assert_fail;
        simos_hooks.posix_memalign_ = h_posix_memalign; simos_hooks.free_ = h_free;
        struct sigaction sa;
        memset(&sa, 0, sizeof sa);
        sa.sa_sigaction = segv_handler; sa.sa_flags = SA_SIGINFO | SA_NODEFER;
        sigemptyset(&sa.sa_mask);
        sigaction(SIGSEGV, &sa, nullptr); sigaction(SIGBUS, &sa, nullptr);
        randombytes_set_implementation(scripted_impl());
        g_src.reset(0xca17);
        LibScope l;
        if (sodium_init() < 0) { fprintf(stderr, "sodium_init failed\n"); _exit(3); }
    }

    static uint64_t gen_size(Rng &r, size_t P) {
        unsigned c = (unsigned) r.below(100);
        if (c < 55) {
            // around page multiples and around the canary offset
            long d = (long) r.pick<long>({-33, -32, -31, -17, -16, -15, -8, -1, 0, 1, 8, 15, 16, 17, 31, 32});
            long k = (long) r.below(4);
            long v = k * (long) P + d;
            return v < 0 ? (uint64_t) r.below(40) : (uint64_t) v;
        }
        if (c < 75) return r.below(3 * P + 2);
        if (c < 85) return r.below(300);
        if (c < 92) return SIZE_MAX - r.below(5 * P);              // oversized region and just below it
        if (c < 96) return ((uint64_t) 1 << r.range(27, 62)) + r.below(3); // cannot be mapped
        return SIZE_MAX - 4 * P - r.below(60) + 20;                // straddling the documented threshold and the overhead wrap zone
    }

    static Plan generate(uint64_t seed, uint64_t run, const Json &pk, bool thorough) {
        uint64_t rs = mix64(seed, run);
        Rng r(rs, "ops"), f(rs, "faults");
        size_t P = (size_t) pk.at("page_size").u64(4096);
        Plan p;
        p.pk = pk; p.content_seed = rs;
        p.lock_policy = (int) (f.below(10) < 5 ? 0 : f.range(1, 3));
        p.signal_ignored = f.chance(1, 3);
        p.misuse_handler = f.chance(1, 3);
        size_t nops = (size_t) r.range(3, thorough ? 40 : 28);
        for (size_t i = 0; i < nops; i++) {
            Op op;
            unsigned c = (unsigned) r.below(100);
            op.idx = (uint32_t) r.below(8); op.a = r.u32(); op.b = r.u32();
            if (c < 22 || i == 0) { op.kind = O_MALLOC; op.size = gen_size(r, P); }
            else if (c < 30) {
                op.kind = O_ALLOCARRAY;
                unsigned w = (unsigned) r.below(10);
                if (w < 3) { op.count = r.below(70); op.size = r.below(600); }
                else if (w < 5) { op.count = r.pick<uint64_t>({0, 1}); op.size = r.chance(1, 2) ? gen_size(r, P) : SIZE_MAX - r.below(3); }
                else if (w == 5) {
                    // both factors just above powers of two whose product is 2^64 or more: the true product is astronomically
                    // large, its low 64 bits (and the factors' wrapped sum) are small
                    unsigned k = (unsigned) r.pick<unsigned>({63, 63, 32, 48, 33, 62});
                    unsigned k2 = k == 63 ? (unsigned) r.pick<unsigned>({63, 1, 2}) : 64 - k + (unsigned) r.below(2);
                    op.count = ((uint64_t) 1 << k) + r.below(3); op.size = ((uint64_t) 1 << k2) + r.below(3);
                }
                else {
                    // around count*size == 2^64
                    uint64_t cnt = r.chance(1, 2) ? ((uint64_t) 1 << r.range(1, 63)) : r.range(2, 1u << 20) | ((uint64_t) r.below(1u << 16) << r.range(20, 47));
                    if (cnt < 2) cnt = 3;
                    uint64_t q = SIZE_MAX / cnt;
                    op.count = cnt;
                    op.size = q + (uint64_t) r.range(0, 4) - 2;
                    if (r.chance(1, 3)) std::swap(op.count, op.size);
                }
            }
            else if (c < 40) op.kind = O_NOACCESS;
            else if (c < 50) op.kind = O_READONLY;
            else if (c < 60) op.kind = O_READWRITE;
            else if (c < 70) op.kind = O_PROBE;
            else if (c < 78) op.kind = O_WRITE;
            else if (c < 84) op.kind = O_TAMPER;
            else if (c < 93) op.kind = O_FREE;
            else if (c < 95) op.kind = r.chance(1, 3) ? O_MLOCK : O_MUNLOCK;
            else if (c < 97) op.kind = O_FORK;
            else if (c < 99) op.kind = O_REINIT;
            else op.kind = O_FREE_NULL;
            if (op.kind == O_FREE) op.fault = f.chance(1, 8);
            else if (op.kind == O_NOACCESS || op.kind == O_READONLY || op.kind == O_READWRITE) op.fault = f.chance(1, 16);
            p.ops.push_back(op);
        }
        return p;
    }

    static Json to_json(const Plan &p) {
        Json j = Json::object();
        j["knobs"] = p.pk; j["content_seed"] = p.content_seed; j["lock_policy"] = p.lock_policy; j["signal_ignored"] = p.signal_ignored; j["misuse_handler"] = p.misuse_handler;
        Json ops = Json::array();
        for (auto &o : p.ops) {
            Json q = Json::object();
            q["op"] = op_name[o.kind];
            if (o.kind == O_MALLOC) q["size"] = o.size;
            else if (o.kind == O_ALLOCARRAY) { q["count"] = o.count; q["size"] = o.size; }
            else if (o.kind == O_MLOCK || o.kind == O_MUNLOCK) { q["i"] = o.idx; q["a"] = o.a; }
            else if (o.kind != O_FREE_NULL && o.kind != O_FORK && o.kind != O_REINIT) { q["i"] = o.idx; if (o.fault) q["mprotect_fails"] = true; if (o.kind == O_PROBE || o.kind == O_WRITE || o.kind == O_TAMPER || o.kind <= O_READWRITE) { q["a"] = o.a; q["b"] = o.b; } }
            ops.push(q);
        }
        j["ops"] = ops;
        return j;
    }
    static Plan from_json(const Json &j) {
        Plan p;
        p.pk = j.at("knobs"); p.content_seed = j.at("content_seed").u64(); p.lock_policy = (int) j.at("lock_policy").i64(); p.signal_ignored = j.at("signal_ignored").boolean(); p.misuse_handler = j.at("misuse_handler").boolean();
        for (auto &q : j.at("ops").a) {
            Op o;
            for (int i = 0; i < O_NKINDS; i++) if (q.at("op").str() == op_name[i]) o.kind = i;
            o.size = q.at("size").u64(); o.count = q.at("count").u64(); o.idx = (uint32_t) q.at("i").u64(); o.a = (uint32_t) q.at("a").u64(); o.b = (uint32_t) q.at("b").u64();
            o.fault = q.at("mprotect_fails").boolean();
            p.ops.push_back(o);
        }
        return p;
    }
    static Result execute(const Plan &p) { Exec e(p); return e.run(); }

    static std::vector<Plan> simplify(const Plan &p) {
        std::vector<Plan> out;
        if (p.lock_policy) { Plan c = p; c.lock_policy = 0; out.push_back(c); }
        if (p.signal_ignored) { Plan c = p; c.signal_ignored = false; out.push_back(c); }
        if (p.misuse_handler) { Plan c = p; c.misuse_handler = false; out.push_back(c); }
        if (p.pk.at("page_size").u64() != 4096) { Plan c = p; c.pk["page_size"] = 4096u; out.push_back(c); }
        if (p.pk.at("cpu_disable").u64() != 0) { Plan c = p; c.pk["cpu_disable"] = 0u; out.push_back(c); }
        for (size_t i = 0; i < p.ops.size(); i++) {
            const Op &o = p.ops[i];
            if (o.idx) { Plan c = p; c.ops[i].idx = 0; out.push_back(c); }
            if (o.fault) { Plan c = p; c.ops[i].fault = false; out.push_back(c); }
            if (o.kind == O_MALLOC && o.size > 64 && o.size < ((uint64_t) 1 << 26)) {
                size_t P = (size_t) p.pk.at("page_size").u64(4096);
                if (o.size % P != o.size) { Plan c = p; c.ops[i].size = o.size % P; out.push_back(c); } // keep the residue, drop whole pages
                { Plan c = p; c.ops[i].size = 16; out.push_back(c); }
            }
            if ((o.kind == O_TAMPER || o.kind == O_PROBE || o.kind == O_WRITE) && (o.a > 15 || o.b > 7)) { Plan c = p; c.ops[i].a %= 16; c.ops[i].b %= 8; out.push_back(c); }
        }
        return out;
    }

    static void describe(Json &ev) {
        Json comp = Json::object(), real = Json::array(), stub = Json::array();
        real.push("sodium/utils.c and the rest of libsodium compiled from /repo's working tree; allocator build variant: " C17_VARIANT);
        real.push("the kernel's page protection: every mmap/mprotect/munmap the library issues is also performed for real, and probes are real loads/stores under a SIGSEGV handler");
        stub.push("model page table (simulated MMU) mirroring every mapping call, at the simulated page size");
        stub.push("sysconf(_SC_PAGESIZE) (4096 / 16384 / 65536), mmap alignment to the simulated page, EINVAL for misaligned mprotect");
        stub.push("mlock / munlock / madvise (never forwarded; succeed or fail with ENOMEM/EPERM by policy)");
        stub.push("process termination: raise()/abort()/__assert_fail are intercepted and turned into an observation; in a third of the runs the signal is 'ignored by the application' (raise returns) and only abort() counts");
        stub.push("canary bytes (scripted random source)");
        comp["real"] = real; comp["stub"] = stub;
        ev["components"] = comp;
        Json as = Json::array();
        as.push("mmap failures are not injected here (mapping failure is C20). mprotect() is made to fail with ENOMEM only inside sodium_free() and the sodium_mprotect_*() calls (1 in 8 / 1 in 16 of them); there the oracle is narrowed: a tampered canary must still terminate the process (a fatal SIGSEGV counts), an intact block may be freed or not, a refused transition leaves the old state in force. it is not injected inside sodium_malloc(), whose guard-page mprotect results the library ignores by design");
        as.push("'oversized' is taken as size >= SIZE_MAX - 4 pages (must fail with ENOMEM without reaching the OS); sizes of 2^27..2^62 bytes are refused by the simulated OS and must fail with ENOMEM");
        as.push("the pattern check is 'every byte non-zero', not a particular value");
        ev["assumptions"] = as;
        ev["x_alloc_variant"] = C17_VARIANT;
        ev["simulated_time_note"] = "no clock involved; sim_steps counts operations";
    }
};

} // namespace

int main(int argc, char **argv) {
    Runner<C17> r;
    return r.main(argc, argv);
}
