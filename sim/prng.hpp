// Seeded randomness for the simulator.  One integer (VERIF_SEED) decides everything:
// run_seed = H(VERIF_SEED, run_index); independent xoshiro256** sub-streams per purpose
// ("ops", "faults", "sched", "knobs", "entropy:<thread>") so that deleting an operation
// while shrinking does not shift the choices made for the operations that remain.
#pragma once
#include <cstdint>
#include <cstring>
#include <string>
#include <vector>
#include <initializer_list>

namespace sim {

static inline uint64_t splitmix64(uint64_t &x) {
    uint64_t z = (x += 0x9e3779b97f4a7c15ULL);
    z = (z ^ (z >> 30)) * 0xbf58476d1ce4e5b9ULL;
    z = (z ^ (z >> 27)) * 0x94d049bb133111ebULL;
    return z ^ (z >> 31);
}

static inline uint64_t mix64(uint64_t a, uint64_t b) {
    uint64_t x = a ^ (b + 0x9e3779b97f4a7c15ULL + (a << 6) + (a >> 2));
    return splitmix64(x);
}

static inline uint64_t hash_str(uint64_t seed, const char *s) {
    uint64_t h = seed ^ 0xcbf29ce484222325ULL;
    for (; *s; ++s) { h ^= (unsigned char) *s; h *= 0x100000001b3ULL; }
    uint64_t x = h;
    return splitmix64(x);
}

struct Rng {
    uint64_t s[4];
    Rng() { seed(0); }
    explicit Rng(uint64_t sd) { seed(sd); }
    Rng(uint64_t sd, const char *purpose) { seed(hash_str(sd, purpose)); }
    void seed(uint64_t sd) { for (auto &v : s) v = splitmix64(sd); }
    static inline uint64_t rotl(uint64_t x, int k) { return (x << k) | (x >> (64 - k)); }
    uint64_t next() {
        const uint64_t result = rotl(s[1] * 5, 7) * 9;
        const uint64_t t = s[1] << 17;
        s[2] ^= s[0]; s[3] ^= s[1]; s[1] ^= s[2]; s[0] ^= s[3];
        s[2] ^= t; s[3] = rotl(s[3], 45);
        return result;
    }
    uint32_t u32() { return (uint32_t) (next() >> 32); }
    // uniform in [0, n); n == 0 -> 0
    uint64_t below(uint64_t n) {
        if (n <= 1) return 0;
        uint64_t lim = UINT64_MAX - (UINT64_MAX % n);
        uint64_t r;
        do { r = next(); } while (r >= lim);
        return r % n;
    }
    // inclusive range
    uint64_t range(uint64_t lo, uint64_t hi) { return lo + below(hi - lo + 1); }
    bool chance(unsigned num, unsigned den) { return below(den) < num; }
    template <class T> T pick(std::initializer_list<T> l) {
        return *(l.begin() + below(l.size()));
    }
    template <class T> const T &pick(const std::vector<T> &v) { return v[below(v.size())]; }
    void fill(void *p, size_t n) {
        unsigned char *b = (unsigned char *) p;
        while (n >= 8) { uint64_t v = next(); memcpy(b, &v, 8); b += 8; n -= 8; }
        if (n) { uint64_t v = next(); memcpy(b, &v, n); }
    }
};

// Order-sensitive digest of an event log (no addresses, no timestamps go in).
struct Digest {
    uint64_t h = 0x6a09e667f3bcc908ULL;
    void add(uint64_t v) { h = mix64(h, v); }
    void add(const void *p, size_t n) {
        const unsigned char *b = (const unsigned char *) p;
        uint64_t acc = 0xcbf29ce484222325ULL;
        for (size_t i = 0; i < n; i++) { acc ^= b[i]; acc *= 0x100000001b3ULL; }
        add(acc ^ (uint64_t) n);
    }
    void add(const std::string &s) { add(s.data(), s.size()); }
    void add(const char *s) { add(s, strlen(s)); }
    uint64_t value() const { return h; }
};

static inline std::string hex64(uint64_t v) {
    static const char *d = "0123456789abcdef";
    std::string s(16, '0');
    for (int i = 15; i >= 0; --i) { s[i] = d[v & 15]; v >>= 4; }
    return s;
}

static inline std::string hexbytes(const unsigned char *p, size_t n) {
    static const char *d = "0123456789abcdef";
    std::string s;
    s.reserve(2 * n);
    for (size_t i = 0; i < n; i++) { s.push_back(d[p[i] >> 4]); s.push_back(d[p[i] & 15]); }
    return s;
}

} // namespace sim
