// Helpers shared by the engines: CPU-mask knob, library-call bracket, scripted random source.
#pragma once
#include "json.hpp"
#include "prng.hpp"
#include "simos.h"

#include <cstdio>
#include <cstdlib>
#include <cstring>
#include <deque>
#include <string>
#include <vector>

extern "C" {
#include <sodium.h>
extern unsigned int _sodium_verif_cpu_disable_mask; // guarded hook in /repo (runtime.c, -DSODIUM_VERIF)
}

namespace sim {

// Bracket for every call into libsodium: simos hooks act only inside it.
#define LIB(expr) (simos_enter(), (expr))
struct LibScope { LibScope() { simos_enter(); } ~LibScope() { simos_leave(); } };
#define INLIB(stmt) do { sim::LibScope _ls; stmt; } while (0)

enum : unsigned {
    NO_SSE2 = 0x001, NO_SSE3 = 0x002, NO_SSSE3 = 0x004, NO_SSE41 = 0x008, NO_AVX = 0x010, NO_AVX2 = 0x020,
    NO_AVX512F = 0x040, NO_PCLMUL = 0x080, NO_AESNI = 0x100, NO_RDRAND = 0x200
};

// Masks only ever remove detected features: prefixes of the SIMD ladder, with or without AES-NI.
static inline const std::vector<unsigned> &cpu_masks() {
    static const std::vector<unsigned> m = {
        0,
        NO_AVX512F,
        NO_AVX512F | NO_AVX2,
        NO_AVX512F | NO_AVX2 | NO_AVX,
        NO_AVX512F | NO_AVX2 | NO_AVX | NO_SSE41,
        NO_AVX512F | NO_AVX2 | NO_AVX | NO_SSE41 | NO_SSSE3,
        NO_AVX512F | NO_AVX2 | NO_AVX | NO_SSE41 | NO_SSSE3 | NO_SSE3 | NO_SSE2,
        NO_AESNI | NO_PCLMUL,
        NO_AVX512F | NO_AVX2 | NO_AVX | NO_SSE41 | NO_SSSE3 | NO_SSE3 | NO_SSE2 | NO_AESNI | NO_PCLMUL,
    };
    return m;
}
static inline std::string cpu_mask_name(unsigned m) {
    if (!m) return "none";
    std::string s;
    const char *names[] = {"sse2", "sse3", "ssse3", "sse41", "avx", "avx2", "avx512f", "pclmul", "aesni", "rdrand"};
    for (int i = 0; i < 10; i++) if (m & (1u << i)) { if (!s.empty()) s += ","; s += names[i]; }
    return s;
}

// ---- scripted random source (the repo's own seam: randombytes_set_implementation) ----
struct RngRequest { char kind; size_t size; size_t offset; }; // 'r' = random(), 'b' = buf()

struct ScriptedSource {
    std::vector<unsigned char> script; // bytes to serve
    size_t pos = 0;
    uint64_t fallback_seed = 0;        // once the script is exhausted, serve H(fallback_seed, pos)
    std::vector<RngRequest> log;
    uint64_t stirs = 0, closes = 0;
    bool exhausted = false;

    void reset(uint64_t fb) { script.clear(); pos = 0; log.clear(); fallback_seed = fb; stirs = closes = 0; exhausted = false; }
    unsigned char byte_at(size_t i) {
        if (i < script.size()) return script[i];
        exhausted = true;
        return (unsigned char) mix64(fallback_seed, i);
    }
    void serve(unsigned char *out, size_t n) {
        if (n > ((size_t) 1 << 28)) {
            // a giant request (thorough tier): only the first and the last 4 KiB are actually written, the rest of the
            // caller's (lazily mapped) buffer is left alone; what matters is how many bytes were ASKED for
            for (size_t i = 0; i < 4096; i++) { out[i] = byte_at(pos + i); out[n - 4096 + i] = byte_at(pos + n - 4096 + i); }
            pos += n;
            return;
        }
        for (size_t i = 0; i < n; i++) out[i] = byte_at(pos + i);
        pos += n;
    }
};

extern ScriptedSource g_src;
// shape: bit 0 = the optional stir callback is absent (NULL), bit 1 = the optional close callback is absent
const randombytes_implementation *scripted_impl(unsigned shape = 0);

#ifdef SIM_COMMON_IMPL
ScriptedSource g_src;
static const char *ss_name(void) { return "scripted"; }
static uint32_t ss_random(void) {
    uint32_t v;
    g_src.log.push_back({'r', 4, g_src.pos});
    g_src.serve((unsigned char *) &v, 4);
    return v;
}
static void ss_stir(void) { g_src.stirs++; }
static void ss_buf(void *const buf, const size_t size) {
    g_src.log.push_back({'b', size, g_src.pos});
    g_src.serve((unsigned char *) buf, size);
}
static int ss_close(void) { g_src.closes++; return 0; }
const randombytes_implementation *scripted_impl(unsigned shape) {
    static randombytes_implementation impl[4] = {{ss_name, ss_random, ss_stir, nullptr, ss_buf, ss_close}, {ss_name, ss_random, nullptr, nullptr, ss_buf, ss_close},
                                                 {ss_name, ss_random, ss_stir, nullptr, ss_buf, nullptr}, {ss_name, ss_random, nullptr, nullptr, ss_buf, nullptr}};
    return &impl[shape & 3];
}
#endif

// Stale stack contents are part of the environment: whatever earlier, unrelated calls left where the library's frames
// are about to live.  The simulator decides it: called right before a library call (from the frame that makes the
// call), this fills the stack region below the caller with one word, so that a local the library forgets to initialise
// holds a value of the simulator's choosing (zero, a recognisable non-pointer, or the address of a tripwire buffer).
__attribute__((noinline)) static inline void dirty_stack(uint64_t word, size_t bytes = 48 * 1024) {
    volatile uint64_t *buf = (volatile uint64_t *) __builtin_alloca(bytes);
    for (size_t i = 0; i < bytes / 8; i++) buf[i] = word;
    __asm__ volatile("" : : "r"(buf) : "memory");
}

// ASan: classify sanitizer hits by exit code, no leak checking (LSan would flood under fork)
#ifdef SIM_COMMON_IMPL
extern "C" __attribute__((used, visibility("default"))) const char *__asan_default_options() {
    return "exitcode=77:detect_leaks=0:abort_on_error=0:allocator_may_return_null=1:handle_abort=0";
}
#endif

} // namespace sim
