# Compiles every *.c / (the two real) *.S under $(REPO)/src/libsodium directly, once per
# build variant, into build/<variant>/.  No libtool, no configure: flags are ours (mk/defs.mk).
# Included by /verif/Makefile.

REPO ?= /repo
B    ?= build

# Sources are compiled from a content-synchronised mirror of $(REPO)/src/libsodium, refreshed on every
# make invocation (rsync --checksum: a file is re-copied, and so gets a new mtime, exactly when its
# CONTENT changed).  This makes "rebuild what changed" independent of the mtimes in /repo, which a
# patch tool, `cp -p`, a tar extraction or a checkout may set to anything.
SRC  := $(B)/srcmirror
MIRROR_LOG := $(shell mkdir -p $(SRC) && rsync -rc --delete --prune-empty-dirs --include='*/' --include='*.c' --include='*.h' --include='*.S' --include='*.in' --exclude='*' $(REPO)/src/libsodium/ $(SRC)/ 2>&1 && cmp -s $(REPO)/configure.ac $(B)/configure.ac.mirror || cp $(REPO)/configure.ac $(B)/configure.ac.mirror)

include mk/defs.mk

CSRCS := $(shell cd $(SRC) && find . -name '*.c' | sed 's|^\./||' | LC_ALL=C sort)
SSRCS := crypto_stream/salsa20/xmm6/salsa20_xmm6-asm.S \
         crypto_scalarmult/curve25519/sandy2x/sandy2x.S

SODIUM_INC := -I$(B)/gen/sodium -I$(B)/gen -I$(SRC)/include/sodium -I$(SRC)/include
SODIUM_WARN := -w
SODIUM_CFLAGS_COMMON := -pthread -fno-strict-aliasing -fno-strict-overflow -fno-omit-frame-pointer $(SODIUM_WARN)

# version.h is a configure output (untracked in /repo); generate our own copy.
$(B)/gen/sodium/version.h: $(SRC)/include/sodium/version.h.in $(B)/configure.ac.mirror
	@mkdir -p $(dir $@)
	@python3 mk/gen_version.py $(B)/configure.ac.mirror $(SRC)/include/sodium/version.h.in > $@.tmp && mv $@.tmp $@

# $(1)=variant name  $(2)=compiler  $(3)=cflags  $(4)=defs
define SODIUM_VARIANT
OBJS_$(1) := $$(patsubst %.c,$(B)/$(1)/%.o,$(CSRCS)) $$(patsubst %.S,$(B)/$(1)/%.o,$(SSRCS))
$(B)/$(1)/%.o: $(SRC)/%.c $(B)/gen/sodium/version.h mk/defs.mk mk/sodium.mk
	@mkdir -p $$(dir $$@)
	@$(2) $(3) $(SODIUM_CFLAGS_COMMON) $(SODIUM_DEFS_COMMON) $(4) $(SODIUM_INC) -MMD -MP -c $$< -o $$@
$(B)/$(1)/%.o: $(SRC)/%.S mk/defs.mk mk/sodium.mk
	@mkdir -p $$(dir $$@)
	@$(2) $(3) $(SODIUM_DEFS_COMMON) $(4) $(SODIUM_INC) -MMD -MP -c $$< -o $$@
-include $$(OBJS_$(1):.o=.d)
endef

# Overlay variant: only the listed sources are rebuilt with different defs; everything else
# comes from the base variant.  $(1)=name $(2)=base $(3)=compiler $(4)=cflags $(5)=defs $(6)=sources
define SODIUM_OVERLAY
OVR_$(1) := $$(patsubst %.c,$(B)/$(1)/%.o,$(6))
OBJS_$(1) := $$(filter-out $$(patsubst %.c,$(B)/$(2)/%.o,$(6)),$$(OBJS_$(2))) $$(OVR_$(1))
$$(OVR_$(1)): $(B)/$(1)/%.o: $(SRC)/%.c $(B)/gen/sodium/version.h mk/defs.mk mk/sodium.mk
	@mkdir -p $$(dir $$@)
	@$(3) $(4) $(SODIUM_CFLAGS_COMMON) $(SODIUM_DEFS_COMMON) $(5) $(SODIUM_INC) -MMD -MP -c $$< -o $$@
-include $$(OVR_$(1):.o=.d)
endef

DEFS_STD := $(DEF_PTHREAD) $(DEF_MMAP) $(DEF_PMA)

PLAIN_CC := gcc
PLAIN_CFLAGS := -O2 -g
ASAN_CC := clang
ASAN_CFLAGS := -O1 -g -fsanitize=address
TSAN_CC := clang
TSAN_CFLAGS := -O1 -g -fsanitize=thread -mllvm -tsan-instrument-func-entry-exit=0

ALLOC_SRCS := sodium/utils.c crypto_pwhash/argon2/argon2-core.c crypto_pwhash/scryptsalsa208sha256/scrypt_platform.c

$(eval $(call SODIUM_VARIANT,plain,$(PLAIN_CC),$(PLAIN_CFLAGS),$(DEFS_STD)))
$(eval $(call SODIUM_VARIANT,asan,$(ASAN_CC),$(ASAN_CFLAGS),$(DEFS_STD)))
$(eval $(call SODIUM_VARIANT,tsanabi,$(TSAN_CC),$(TSAN_CFLAGS),$(DEFS_STD)))
# the optimisation level /repo's own build uses (its configured CFLAGS carry no -O): locals live in memory, nothing is
# folded away, so a path that reads an uninitialised local or relies on a dead store behaves as it does in the library
# the test suite runs against
PLAINO0_CFLAGS := -O0 -g -fstack-protector
$(eval $(call SODIUM_VARIANT,plainO0,$(PLAIN_CC),$(PLAINO0_CFLAGS),$(DEFS_STD)))
# allocator variants (C20, C17): posix_memalign and plain malloc paths
$(eval $(call SODIUM_OVERLAY,plain_pma,plain,$(PLAIN_CC),$(PLAIN_CFLAGS),$(DEF_PTHREAD) $(DEF_PMA),$(ALLOC_SRCS)))
$(eval $(call SODIUM_OVERLAY,plain_malloc,plain,$(PLAIN_CC),$(PLAIN_CFLAGS),$(DEF_PTHREAD),$(ALLOC_SRCS)))
$(eval $(call SODIUM_OVERLAY,asan_pma,asan,$(ASAN_CC),$(ASAN_CFLAGS),$(DEF_PTHREAD) $(DEF_PMA),$(ALLOC_SRCS)))
$(eval $(call SODIUM_OVERLAY,asan_malloc,asan,$(ASAN_CC),$(ASAN_CFLAGS),$(DEF_PTHREAD),$(ALLOC_SRCS)))
# spinlock variant (C19): core.c without HAVE_PTHREAD falls through to the HAVE_ATOMIC_OPS lock
$(eval $(call SODIUM_OVERLAY,tsanabi_spin,tsanabi,$(TSAN_CC),$(TSAN_CFLAGS),$(DEF_MMAP) $(DEF_PMA),sodium/core.c))
