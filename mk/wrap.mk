WRAP_SYMS := malloc calloc realloc free posix_memalign mmap munmap mprotect mlock munlock madvise \
  sysconf raise abort __assert_fail getrandom getentropy open read close fstat fcntl poll \
  gettimeofday getpid nanosleep pthread_mutex_lock pthread_mutex_trylock pthread_mutex_unlock pthread_mutex_timedlock getrlimit setrlimit sigaction umask pthread_key_create pthread_atfork pthread_sigmask sigprocmask \
  time clock_gettime arc4random arc4random_buf rand random
WRAP_LDFLAGS := $(foreach s,$(WRAP_SYMS),-Wl,--wrap=$(s))
