#!/usr/bin/env python3
"""Generate sodium/version.h from version.h.in + configure.ac (configure output is untracked)."""
import re, sys
ac = open(sys.argv[1]).read()
tpl = open(sys.argv[2]).read()
ver = re.search(r"AC_INIT\(\[libsodium\],\[([^\]]+)\]", ac).group(1)
maj = re.search(r"^SODIUM_LIBRARY_VERSION_MAJOR=(\d+)", ac, re.M).group(1)
mnr = re.search(r"^SODIUM_LIBRARY_VERSION_MINOR=(\d+)", ac, re.M).group(1)
out = (tpl.replace("@VERSION@", ver)
          .replace("@SODIUM_LIBRARY_VERSION_MAJOR@", maj)
          .replace("@SODIUM_LIBRARY_VERSION_MINOR@", mnr)
          .replace("@SODIUM_LIBRARY_MINIMAL_DEF@", ""))
sys.stdout.write(out)
