# /verif build.  `make setup` builds what does not depend on /repo; engine targets rebuild
# libsodium objects from /repo's working tree (incrementally, -MMD) on every invocation.
B := build
# one canonical spelling of the build directory, whether make is invoked by hand (B=build) or by ./check
# (B=/verif/build): the -MMD dependency files name their targets with it, and a header dependency recorded
# under one spelling is invisible under the other
override B := $(abspath $(B))
include mk/sodium.mk

.PHONY: setup clean sodium-plain sodium-asan sodium-tsanabi
# builds every engine against the current /repo so that the per-change checks only recompile what changed
setup:
	@mkdir -p $(B) evidence replays
	@$(MAKE) --no-print-directory all
	@echo setup ok

sodium-plain: $(OBJS_plain)
sodium-asan: $(OBJS_asan)
sodium-tsanabi: $(OBJS_tsanabi)

clean:
	rm -rf $(B)

# ---------------- engines ----------------
include mk/wrap.mk
SIM_HDRS := $(wildcard sim/*.hpp sim/*.h)
ENGINE_INC := -Isim -I$(SRC)/include -I$(B)/gen
CXXSTD := -std=gnu++17 -Wall -Wno-unused-function

$(B)/obj/plain/simos.o: sim/simos.c sim/simos.h
	@mkdir -p $(dir $@)
	@gcc -O2 -g -c $< -o $@
$(B)/obj/asan/simos.o: sim/simos.c sim/simos.h
	@mkdir -p $(dir $@)
	@clang -O1 -g -c $< -o $@

# $(1)=engine source stem  $(2)=sodium variant  $(3)=compile family (plain|asan)
define ENGINE
$(B)/obj/$(2)/$(1).o: sim/$(1).cpp $(SIM_HDRS) $(B)/gen/sodium/version.h
	@mkdir -p $$(dir $$@)
	@echo "  CXX  $$@"
	@$$(CXX_$(3)) $$(CXXFLAGS_$(3)) $(CXXSTD) $(ENGINE_INC) $$(EDEFS_$(1)_$(2)) -c $$< -o $$@
$(B)/bin/$(1)_$(2): $(B)/obj/$(2)/$(1).o $(B)/obj/$(3)/simos.o $$(OBJS_$(2))
	@mkdir -p $$(dir $$@)
	@echo "  LINK $$@"
	@$$(CXX_$(3)) $$(CXXFLAGS_$(3)) -o $$@ $$^ $(WRAP_LDFLAGS) -pthread
endef
CXX_plain := g++
CXXFLAGS_plain := -O2 -g
CXX_asan := clang++
CXXFLAGS_asan := -O1 -g -fsanitize=address -fno-omit-frame-pointer

$(eval $(call ENGINE,c09_stream,asan,asan))
$(eval $(call ENGINE,c09_stream,plain,plain))
$(eval $(call ENGINE,c09_stream,plainO0,plain))

.PHONY: c09
c09: $(B)/bin/c09_stream_asan $(B)/bin/c09_stream_plain $(B)/bin/c09_stream_plainO0

EDEFS_c20_oom_plain := -DC20_VARIANT='"mmap"'
EDEFS_c20_oom_asan := -DC20_VARIANT='"mmap"'
EDEFS_c20_oom_plain_pma := -DC20_VARIANT='"posix_memalign"'
EDEFS_c20_oom_asan_pma := -DC20_VARIANT='"posix_memalign"'
EDEFS_c20_oom_plain_malloc := -DC20_VARIANT='"malloc"'
EDEFS_c20_oom_asan_malloc := -DC20_VARIANT='"malloc"'
$(eval $(call ENGINE,c20_oom,plain,plain))
$(eval $(call ENGINE,c20_oom,asan,asan))
$(eval $(call ENGINE,c20_oom,plain_pma,plain))
$(eval $(call ENGINE,c20_oom,asan_pma,asan))
$(eval $(call ENGINE,c20_oom,plain_malloc,plain))
$(eval $(call ENGINE,c20_oom,asan_malloc,asan))
EDEFS_c20_oom_plainO0 := -DC20_VARIANT='"mmap"'
$(eval $(call ENGINE,c20_oom,plainO0,plain))
.PHONY: c20
c20: $(foreach v,plain asan plain_pma asan_pma plain_malloc asan_malloc plainO0,$(B)/bin/c20_oom_$(v))

$(B)/gen/keygens.inc: mk/gen_keygens.py $(wildcard $(SRC)/include/sodium/*.h)
	@mkdir -p $(dir $@)
	@python3 mk/gen_keygens.py $(SRC)/include/sodium > $@.tmp && mv $@.tmp $@
$(B)/obj/asan/c18_rng.o $(B)/obj/plain/c18_rng.o $(B)/obj/plainO0/c18_rng.o: $(B)/gen/keygens.inc
$(eval $(call ENGINE,c18_rng,plain,plain))
$(eval $(call ENGINE,c18_rng,asan,asan))
$(eval $(call ENGINE,c18_rng,plainO0,plain))
.PHONY: c18
c18: $(B)/bin/c18_rng_plain $(B)/bin/c18_rng_asan $(B)/bin/c18_rng_plainO0

EDEFS_c17_guard_plain := -DC17_VARIANT='"mmap"'
EDEFS_c17_guard_plain_pma := -DC17_VARIANT='"posix_memalign"'
$(eval $(call ENGINE,c17_guard,plain,plain))
$(eval $(call ENGINE,c17_guard,plain_pma,plain))
EDEFS_c17_guard_plainO0 := -DC17_VARIANT='"mmap"'
$(eval $(call ENGINE,c17_guard,plainO0,plain))
.PHONY: c17
c17: $(B)/bin/c17_guard_plain $(B)/bin/c17_guard_plain_pma $(B)/bin/c17_guard_plainO0

# ---------------- C19: TSan-instrumented libsodium + our own runtime ----------------
C19_WRAP := $(WRAP_LDFLAGS) -Wl,--wrap=memcpy -Wl,--wrap=memmove -Wl,--wrap=memset -Wl,--wrap=explicit_bzero
C19_CXXFLAGS := -O2 -g -fno-omit-frame-pointer
$(B)/obj/tsanabi/simos.o: sim/simos.c sim/simos.h
	@mkdir -p $(dir $@)
	@clang -O2 -g -c $< -o $@
$(B)/obj/tsanabi/simrt.o: sim/simrt.cpp $(SIM_HDRS)
	@mkdir -p $(dir $@)
	@echo "  CXX  $@"
	@clang++ $(C19_CXXFLAGS) $(CXXSTD) $(ENGINE_INC) -c $< -o $@
define C19BIN
$(B)/obj/$(1)/c19_threads.o: sim/c19_threads.cpp $(SIM_HDRS) $(B)/gen/sodium/version.h
	@mkdir -p $$(dir $$@)
	@echo "  CXX  $$@"
	@clang++ $(C19_CXXFLAGS) $(CXXSTD) $(ENGINE_INC) -DC19_LOCK_VARIANT='"$(2)"' -c $$< -o $$@
$(B)/bin/c19_threads_$(1): $(B)/obj/$(1)/c19_threads.o $(B)/obj/tsanabi/simrt.o $(B)/obj/tsanabi/simos.o $$(OBJS_$(1))
	@mkdir -p $$(dir $$@)
	@echo "  LINK $$@"
	@clang++ $(C19_CXXFLAGS) -o $$@ $$^ $(C19_WRAP) -pthread
endef
$(eval $(call C19BIN,tsanabi,pthread))
$(eval $(call C19BIN,tsanabi_spin,spinlock))
.PHONY: c19
c19: $(B)/bin/c19_threads_tsanabi $(B)/bin/c19_threads_tsanabi_spin

.PHONY: all
all: c09 c17 c18 c19 c20
