#!/bin/bash
# Run the registered check (quick tier, or the tier named in meta.json) against every seeded change applied to
# /repo itself, one after the other, and record the outcome in each meta.json.  ONLY_PENDING=1 skips those already run.
cd /verif
for d in seeded/C*-[0-9]*; do
  tier=$(python3 -c "import json;m=json.load(open('$d/meta.json'));print(m.get('tier','quick'))")
  if [ "${ONLY_PENDING:-0}" = 1 ]; then
    python3 -c "import json,sys;m=json.load(open('$d/meta.json'));sys.exit(0 if m.get('check_result')=='pending' else 1)" || continue
  fi
  tools/run_seeded.sh $d $tier > /tmp/seedrun-$(basename $d).txt 2>&1
  rc=$?
  python3 - "$d" "$rc" "$tier" <<'PY'
import json,sys
d,rc,tier=sys.argv[1],int(sys.argv[2]),sys.argv[3]
m=json.load(open(d+'/meta.json'))
log=open('/tmp/seedrun-'+d.split('/')[-1]+'.txt').read()
viol=[l.strip() for l in log.splitlines() if l.startswith('VIOLATION') or l.startswith('  class=')]
cid=m.get("checked_by",m["property"])
m['check_result']={"command":"tools/run_seeded.sh %s %s  (git -C /repo apply; ./check %s %s; git -C /repo checkout -- .)"%(d,tier,cid,tier),"exit":rc,"detected":rc==1,"first_reports":viol[:4]}
json.dump(m,open(d+'/meta.json','w'),indent=1)
PY
done
echo ALLDONE > /tmp/seedrun-done.txt
