#!/bin/bash
cd /verif
for d in seeded/C*-[0-9]*; do
  tools/run_seeded.sh $d quick > /tmp/seedrun-$(basename $d).txt 2>&1
  rc=$?
  python3 - "$d" "$rc" <<'PY'
import json,sys
d,rc=sys.argv[1],int(sys.argv[2])
m=json.load(open(d+'/meta.json'))
log=open('/tmp/seedrun-'+d.split('/')[-1]+'.txt').read()
viol=[l.strip() for l in log.splitlines() if l.startswith('VIOLATION') or l.startswith('  class=')]
m["check_result"]={"command":"tools/run_seeded.sh %s quick  (git -C /repo apply; ./check %s quick; git -C /repo checkout -- .)"%(d,m.get("checked_by",m["property"])),"exit":rc,"detected":rc==1,"first_reports":viol[:4]}
json.dump(m,open(d+'/meta.json','w'),indent=1)
PY
done
echo ALLDONE > /tmp/seedrun-done.txt
