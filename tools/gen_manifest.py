#!/usr/bin/env python3
"""Writes /verif/MANIFEST.json (kept as a generator so the not_applicable reasons and the
per-check texts live in one reviewed place)."""
import json, os
V = os.path.dirname(os.path.dirname(os.path.abspath(__file__)))

NA = {
 "C01": "pure function of (key, nonce, ad, message, call form, backend): no schedule, fault, clock or history for a simulator to own (DESIGN.md s9); would be decided by differential testing",
 "C02": "each clause is one stateless call on a mutated input; a 'corrupting transport' in front of a stateless decrypt is input mutation renamed. The stateful secretstream rejection behaviour is decided under C09",
 "C03": "pure function of (key, nonce, length, counter); counter arithmetic is input-space coverage, not scheduling or faults",
 "C04": "pure; the update-chunking 'history' has no environment that can act between calls (caller-owned state, no I/O), so it is property-based testing, not simulation",
 "C05": "pure function of (scalar, point) / seed; kx has two parties but no state is exchanged under the library's control",
 "C06": "pure function of (seed, message) / (signature, message, key)",
 "C07": "pure group and scalar arithmetic",
 "C08": "pure function of (password, salt, costs) / string; its randomness seam is decided under C18 and its allocation-failure surface under C20",
 "C10": "cross-configuration equality of pure functions is differential testing; the CPU-mask hook it names exists and is used as a swarm knob by the C09/C18/C19/C20 engines",
 "C11": "constant-time behaviour is a property of one execution's control flow and addresses (taint analysis), not of schedules or faults",
 "C12": "for-all-inputs memory safety is an input-space sweep under sanitizers; ASan runs inside the simulated runs of C09/C18/C20 but covers only the APIs those engines drive",
 "C13": "pure function of (input, overlap offset)",
 "C14": "pure arithmetic helpers",
 "C15": "pure codecs",
 "C16": "pure padding functions",
}
PENDING = {}

CHECKS = {
 "C09": dict(engine="c09_stream", category="exploration", design_ref="DESIGN.md section 4",
   text="Seeded deterministic simulation of 1-3 secretstream sessions (real push/pull/rekey code) over a simulator-owned faulty transport (drop, duplicate, reorder, truncate, extend, bit flips in tag byte / ciphertext / MAC, AD flip/drop/extend/swap, cross-delivery between independent, same-key, same-header and twin streams, replay of old chunks incl. across rekeys), from chunk counters 1, 2^32-k and partial-width boundaries. Every emitted chunk and every state is compared with an independent reference model of the documented construction; every rejected pull is checked to leave the state byte-identical; a heal phase checks bounded recovery. Sampling, not proof: millions of short diverse runs per check on several SIMD backends, with ASan.",
   note="Trusted: the harness-side reference ChaCha20/HChaCha20/Poly1305 (RFC 8439 vectors checked at start-up), the guarded CPU-mask hook, gcc/clang. A forged chunk passes with probability 2^-128, treated as never. Messages <= 4096 bytes, <= 60 operations per run.",
   technique="deterministic simulation: seeded fault-injecting transport + reference-model oracle + ddmin replay"),
}

def main():
    checks = []
    for pid in sorted(CHECKS):
        c = CHECKS[pid]
        checks.append({
            "property_id": pid,
            "quick_cmd": "./check %s quick" % pid,
            "thorough_cmd": "./check %s thorough" % pid,
            "evidence_file": "/verif/evidence/%s.json" % pid,
            "replay_cmd_template": "./check --replay {path}",
            "engine": c["engine"],
            "level_claimed": {"category": c["category"], "text": c["text"], "design_ref": c["design_ref"]},
            "level_note": c["note"],
            "technique": c["technique"],
        })
    na = [{"property_id": k, "reason": v} for k, v in sorted(NA.items())]
    na += [{"property_id": k, "reason": v} for k, v in sorted(PENDING.items()) if k not in CHECKS]
    m = {
        "version": 1,
        "setup_cmd": "make -C /verif -j16 setup",
        "hooks": {
            "guard": "SODIUM_VERIF",
            "enable": "the /verif Makefile compiles every source under /repo/src/libsodium directly with -DSODIUM_VERIF=1 (mk/defs.mk); the repo's own autotools build never defines it",
            "baseline_off_cmd": "make -C /repo -j8 check",
            "source_commits": [],
            "add_only": True,
        },
        "engines": [],
        "checks": checks,
        "not_applicable": na,
        "notes": "Technique studied: deterministic simulation with fault injection. See DESIGN.md. Exit codes: 0 held, 1 violation (VIOLATION line + replay file), 2 harness/build error (never a property verdict).",
    }
    import subprocess
    try:
        out = subprocess.run(["git", "-C", "/repo", "log", "--format=%H %s"], stdout=subprocess.PIPE, text=True).stdout
        m["hooks"]["source_commits"] = [l.split()[0] for l in out.splitlines() if "verif hook" in l]
    except Exception:
        pass
    eng = {}
    for pid, c in CHECKS.items():
        eng.setdefault(c["engine"], []).append(pid)
    for e, ps in sorted(eng.items()):
        m["engines"].append({"name": e, "path": "sim/%s.cpp" % e, "serves_properties": sorted(ps),
                             "kind_free_text": "seeded deterministic simulator + fault injector, plans replayable from JSON"})
    with open(os.path.join(V, "MANIFEST.json"), "w") as f:
        json.dump(m, f, indent=1)
        f.write("\n")

if __name__ == "__main__":
    PENDING.update({p: "engine under construction in this session (will be claimed once its check exists)" for p in ("C17", "C18", "C19", "C20")})
    main()
