#!/usr/bin/env python3
"""Writes /verif/MANIFEST.json (kept as a generator so the not_applicable reasons and the
per-check texts live in one reviewed place)."""
import json, os
V = os.path.dirname(os.path.dirname(os.path.abspath(__file__)))

NA = {
 "C01": "pure function of (key, nonce, ad, message, call form, backend): no schedule, fault, clock or history for a simulator to own (DESIGN.md s9); would be decided by differential testing",
 "C02": "each clause is one stateless call on a mutated input; a 'corrupting transport' in front of a stateless decrypt is input mutation renamed. The stateful secretstream rejection behaviour is decided under C09",
 "C03": "pure function of (key, nonce, length, counter); counter arithmetic is input-space coverage, not scheduling or faults",
 "C04": "pure; the update-chunking 'history' has no environment that can act between calls (caller-owned state, no I/O), so it is property-based testing, not simulation",
 "C05": "pure function of (scalar, point) / seed; kx has two parties but no state is exchanged under the library's control",
 "C06": "pure function of (seed, message) / (signature, message, key)",
 "C07": "pure group and scalar arithmetic",
 "C08": "pure function of (password, salt, costs) / string; its randomness seam is decided under C18 and its allocation-failure surface under C20",
 "C10": "cross-configuration equality of pure functions is differential testing; the CPU-mask hook it names exists and is used as a swarm knob by the C09/C18/C19/C20 engines",
 "C11": "constant-time behaviour is a property of one execution's control flow and addresses (taint analysis), not of schedules or faults",
 "C12": "for-all-inputs memory safety is an input-space sweep under sanitizers; ASan runs inside the simulated runs of C09/C18/C20 but covers only the APIs those engines drive",
 "C13": "pure function of (input, overlap offset)",
 "C14": "pure arithmetic helpers",
 "C15": "pure codecs",
 "C16": "pure padding functions",
}
PENDING = {}

CHECKS = {
 "C17": dict(engine="c17_guard", category="exploration", design_ref="DESIGN.md section 5",
   text="Seeded deterministic simulation of guarded-allocation histories over a simulated MMU: mmap/munmap/mprotect/mlock/madvise/sysconf/posix_memalign/free/raise/abort are intercepted, mirrored into a model page table at the simulated page size (4K/16K/64K knob) and forwarded to the kernel, so that real load/store probes under a SIGSEGV handler and the model must both agree with the property after every operation, for all live allocations. Sizes sweep k*page+d around every page and canary boundary, near SIZE_MAX and unmappable sizes; (count,size) pairs sweep the overflow boundary; protection transitions in any order; per-byte per-bit canary tampering; free from every state with termination observed at raise()/abort() (in a third of the runs the application ignores the signal, so raise() returns and only abort() counts); mlock/madvise failing by policy; fork() with the child checking and freeing every inherited allocation. Runs earlier in the same process are replayed as a prelude when a violation depends on state carried inside the library.",
   note="Trusted: the kernel's page protection (probes are real), the model page table, the scripted canary source. mprotect/mmap failures are not injected here. Two allocator build variants (mmap, posix_memalign). Sampling, not proof.",
   technique="deterministic simulation: simulated MMU/page table + real access probes + seeded operation histories"),
 "C19": dict(engine="c19_threads", category="exploration", design_ref="DESIGN.md section 7",
   text="Seeded deterministic scheduling of 2-16 real threads racing through sodium_init() and a 71-operation workload over every API family (incl. shared read-only objects and constant-time helpers on guarded buffers) (default, internal and scripted RNG; guarded allocation; password hashing; pthread-mutex and spinlock builds of the library lock). libsodium is compiled with the ThreadSanitizer compiler instrumentation but linked against our own runtime: every access to tracked memory (the whole writable data segment plus library-allocated blocks), every lock, atomic and wrapped system call is a point where the seeded scheduler (random walk, PCT, loser-first, coarse) may switch; exactly one thread runs at a time, so a plan replays exactly; in half of the runs thread 0 is the process's main thread and the others are created when first scheduled; environment faults (sysconf failing in sodium_init, getrandom EINTR/EAGAIN, mlock refused) are per-thread deterministic; the simulated clock either gives each thread its own time line or stands still for all threads (same microsecond everywhere). A violating schedule is reduced to an explicit list of deviations from run-to-completion order. An own vector-clock happens-before detector flags a race on any explored schedule in which two conflicting accesses are unordered by the program's own synchronisation. History oracles: init return values, initialisation work at the environment boundary equal to one sequential initialisation, every operation result equal to a sequential reference execution with per-thread entropy streams, purely random outputs never coinciding between or within threads, no deadlock/livelock/assert/abort.",
   note="Trusted: clang's TSan instrumentation pass (accesses it does not instrument, e.g. in the two .S files, are invisible), our runtime's happens-before model (C11: mutex, atomics, thread create/exit), glibc. Seeded search over schedules, not exhaustive; hardware memory-model effects beyond C11 happens-before are out of reach.",
   technique="deterministic simulation: seeded thread scheduler over real threads + own happens-before race detector on the TSan compiler ABI + sequential reference model"),
 "C18": dict(engine="c18_rng", category="exploration", design_ref="DESIGN.md section 6",
   text="Seeded deterministic simulation of the randomness seam. Plans of 1-20 generating operations (every *_keygen found in the public headers, key pairs, secretstream header, sealed boxes, pwhash/scrypt strings, random points and scalars, uniform/random/buf/buf_deterministic, stir, close) share one byte stream served either by a scripted randombytes_implementation, or by a simulated kernel (getrandom, or /dev/urandom after ENOSYS, with EINTR/EAGAIN/short reads, EOF/EIO and a descriptor table) under the real built-in default source, or by that kernel feeding the opt-in internal generator (getentropy or device fallback). Exact oracle for randombytes_uniform with draws placed at 2^32 mod n +-1, exact reference for buf_deterministic, documented identity for keygens; for every other secret: enough bytes requested, identical result when the same bytes are replayed under different ambient values (time, pid, getrandom, arc4random ...) and buffer pre-fill, and a different result when one served bit of the secret is flipped.",
   note="Trusted: the library's own deterministic functions used for self-consistency of key pairs / sealed boxes / hash strings, the harness-side ChaCha20 (RFC 8439 vectors checked at start-up), the guarded CPU-mask hook. Sampling, not proof. A generator that derives its secret differently from the same source bytes is not flagged (only keygens are pinned to their documented behaviour).",
   technique="deterministic simulation: scripted entropy source / simulated kernel with syscall fault injection, replay + perturbation oracles"),
 "C20": dict(engine="c20_oom", category="fault_enumeration", design_ref="DESIGN.md section 8",
   text="Fault enumeration behind the malloc/calloc/realloc/posix_memalign/mmap seam: for each sampled call (pwhash raw/str/str_verify/needs_rehash for both Argon2 variants through generic and specific entry points, scrypt raw/_ll/str/str_verify, sodium_malloc, sodium_allocarray; correct, wrong, foreign-algorithm, truncated and garbage strings) the allocation request sequence is recorded and EVERY position is failed in turn, under 'that request only' and 'that and all later ones'. Oracle: error return (never success, verify never 0, needs_rehash -1), live-block table empty of blocks from the call, no double/invalid free or stray munmap, no crash or ASan report, and a following fault-free call equals the reference. Run on three allocator build variants (mmap, posix_memalign, malloc) x {gcc -O2, clang ASan} x CPU backends.",
   note="Exhaustive over allocation positions per sampled call; calls and parameters are sampled. errno and output buffer contents after failure are not constrained. mlock/madvise/mprotect failures are not allocation failures and are not injected.",
   technique="deterministic fault injection: exhaustive enumeration of failing allocation positions with allocator bookkeeping"),
 "C09": dict(engine="c09_stream", category="exploration", design_ref="DESIGN.md section 4",
   text="Seeded deterministic simulation of 1-3 secretstream sessions (real push/pull/rekey code) over a simulator-owned faulty transport (drop, duplicate, reorder, truncate, extend, bit flips in tag byte / ciphertext / MAC, AD flip/drop/extend/swap, cross-delivery between independent, same-key, same-header and twin streams, replay of old chunks incl. across rekeys), from chunk counters 1, 2^32-k and partial-width boundaries. Every emitted chunk and every state is compared with an independent reference model of the documented construction; every rejected pull is checked to leave the state byte-identical; a heal phase checks bounded recovery. Sampling, not proof: millions of short diverse runs per check on several SIMD backends, with ASan.",
   note="Trusted: the harness-side reference ChaCha20/HChaCha20/Poly1305 (RFC 8439 vectors checked at start-up), the guarded CPU-mask hook, gcc/clang. A forged chunk passes with probability 2^-128, treated as never. Messages <= 4096 bytes, <= 60 operations per run.",
   technique="deterministic simulation: seeded fault-injecting transport + reference-model oracle + ddmin replay"),
}

def main():
    checks = []
    for pid in sorted(CHECKS):
        c = CHECKS[pid]
        checks.append({
            "property_id": pid,
            "quick_cmd": "./check %s quick" % pid,
            "thorough_cmd": "./check %s thorough" % pid,
            "evidence_file": "/verif/evidence/%s.json" % pid,
            "replay_cmd_template": "./check --replay {path}",
            "engine": c["engine"],
            "level_claimed": {"category": c["category"], "text": c["text"], "design_ref": c["design_ref"]},
            "level_note": c["note"],
            "technique": c["technique"],
        })
    na = [{"property_id": k, "reason": v} for k, v in sorted(NA.items())]
    na += [{"property_id": k, "reason": v} for k, v in sorted(PENDING.items()) if k not in CHECKS]
    m = {
        "version": 1,
        "setup_cmd": "make -C /verif -j16 setup",
        "hooks": {
            "guard": "SODIUM_VERIF",
            "enable": "the /verif Makefile compiles every source under /repo/src/libsodium directly with -DSODIUM_VERIF=1 (mk/defs.mk); the repo's own autotools build never defines it",
            "baseline_off_cmd": "make -C /repo -j8 check",
            "source_commits": [],
            "add_only": True,
        },
        "engines": [],
        "checks": checks,
        "not_applicable": na,
        "notes": "Technique studied: deterministic simulation with fault injection. See DESIGN.md. Exit codes: 0 held, 1 violation (VIOLATION line + replay file), 2 harness/build error (never a property verdict).",
    }
    import subprocess
    try:
        out = subprocess.run(["git", "-C", "/repo", "log", "--format=%H %s"], stdout=subprocess.PIPE, text=True).stdout
        m["hooks"]["source_commits"] = [l.split()[0] for l in out.splitlines() if "verif hook" in l]
    except Exception:
        pass
    eng = {}
    for pid, c in CHECKS.items():
        eng.setdefault(c["engine"], []).append(pid)
    for e, ps in sorted(eng.items()):
        m["engines"].append({"name": e, "path": "sim/%s.cpp" % e, "serves_properties": sorted(ps),
                             "kind_free_text": "seeded deterministic simulator + fault injector, plans replayable from JSON"})
    with open(os.path.join(V, "MANIFEST.json"), "w") as f:
        json.dump(m, f, indent=1)
        f.write("\n")

if __name__ == "__main__":
    main()
