#!/bin/bash
# No-false-alarm sweep: every check at the given tier under many VERIF_SEEDs on the unchanged tree.
# usage: tools/multiseed.sh <tier> <first_seed> <last_seed>
TIER=${1:-quick}; A=${2:-2}; B=${3:-21}
cd "$(dirname "$0")/.."
make -j16 setup > /dev/null 2>&1
bad=0
for s in $(seq $A $B); do
  for id in C09 C17 C18 C19 C20; do
    VERIF_SEED=$s VERIF_OUT=$PWD/multiseed_out ./check $id $TIER > multiseed_$id.$s.log 2>&1; rc=$?
    echo "seed=$s $id rc=$rc $(grep -E '^\[' multiseed_$id.$s.log | tr '\n' ' ' | cut -c1-200)"
    if [ $rc -ne 0 ]; then bad=$((bad+1)); grep -E -A3 "^VIOLATION|NONDETERMINISM|HARNESS|KNOWN" multiseed_$id.$s.log | head -20; fi
  done
done
echo "multiseed done: non-zero exits=$bad"
