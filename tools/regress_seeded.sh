#!/bin/bash
# Regression over every kept seeded change after the engines changed: each patch is applied to a scratch copy
# (tools/mutcheck.sh), the check named in its meta.json (checked_by / tier) is run, and the outcome is compared
# with the recorded one.  Does not touch /repo.  usage: tools/regress_seeded.sh [pattern]   (MUT_SRC=<pristine copy>)
cd /verif
out=${REGRESS_OUT:-/tmp/regress.txt}; : > $out
for d in seeded/${1:-C}*-[0-9]*; do
  read id tier want <<<$(python3 -c "
import json;m=json.load(open('$d/meta.json'));r=m.get('check_result');print(m.get('checked_by',m['property']),m.get('tier','quick'),int(r.get('detected',False)) if isinstance(r,dict) else -1)")
  MUT_DIFF_LINES=0 tools/mutcheck.sh $id $tier /verif/$d/patch.diff > /tmp/regress-one.log 2>&1; rc=$?
  got=0; [ $rc -eq 1 ] && got=1
  flag=same; [ "$got" != "$want" ] && flag=CHANGED
  echo "$(basename $d) check=$id tier=$tier recorded=$want now=$got rc=$rc $flag $(grep -m1 'class=' /tmp/regress-one.log)" >> $out
done
echo REGRESSDONE >> $out
