#!/bin/bash
# Run a check against a seeded change applied to /repo itself, then undo it.
# usage: tools/run_seeded.sh <seeded-dir> [tier]     e.g. tools/run_seeded.sh seeded/C09-1
D=$(realpath $1); TIER=${2:-quick}
ID=$(python3 -c "import json;m=json.load(open('$D/meta.json'));print(m.get('checked_by',m['property']))")
cd /repo || exit 9
if ! git diff --quiet; then echo "/repo has uncommitted changes; refusing"; exit 9; fi
git apply --3way $D/patch.diff 2>/dev/null || git apply $D/patch.diff || patch -s -p1 --fuzz=3 < $D/patch.diff || { echo "patch does not apply"; git checkout -- .; exit 9; }
git reset -q
OUT=$(mktemp -d /tmp/vseed.XXXXXX)
git diff --stat > $OUT/log.txt
if git diff --quiet; then echo "patch left no change in /repo"; rm -rf $OUT; exit 9; fi
VERIF_BUILD=/tmp/seedbuild VERIF_OUT=$OUT /verif/check $ID $TIER >> $OUT/log.txt 2>&1
rc=$?
git -C /repo checkout -- .
grep -E -A2 "^VIOLATION|^HARNESS|^BUILD|^NOTE" $OUT/log.txt | cut -c1-260 | head -12
echo "seeded $(basename $D): check exit=$rc"
mkdir -p /tmp/seeded_logs; cp $OUT/log.txt /tmp/seeded_logs/$(basename $D).log; rm -rf $OUT
exit $rc
