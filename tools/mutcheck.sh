#!/bin/bash
# Development helper: run a check against a scratch copy of /repo with a patch (or a sed script)
# applied.  usage: tools/mutcheck.sh <ID> <tier> <patch.diff | 'sed:<file>:<expr>'>...
# The scratch copy lives under /tmp and is removed afterwards.
set -u
ID=$1; TIER=$2; shift 2
S=$(mktemp -d /tmp/vmut.XXXXXX)
mkdir -p $S/repo
SRC=${MUT_SRC:-/repo}   # MUT_SRC: a pristine copy to start from while /repo itself is being used by a seeded batch
cp -a $SRC/src $SRC/configure.ac $S/repo/ 2>/dev/null
find $S/repo -name '*.o' -o -name '*.lo' -o -name '*.la' -o -name '.libs' -o -name '.deps' | xargs rm -rf
for m in "$@"; do
  case "$m" in
    sed:*) f=$(echo "$m" | cut -d: -f2); e=$(echo "$m" | cut -d: -f3-); sed -i -E "$e" $S/repo/$f || exit 9 ;;
    *) (cd $S/repo && patch -s -p1 < "$m") || exit 9 ;;
  esac
done
(cd $S/repo && diff -ru $SRC/src src | grep -v "^Only in" | head -${MUT_DIFF_LINES:-30})
mkdir -p $S/verif
VERIF_REPO=$S/repo VERIF_BUILD=$S/build VERIF_OUT=$S/verif /verif/check $ID $TIER
rc=$?
echo "mutcheck exit=$rc"
rm -rf $S
exit $rc
