#!/bin/bash
# Confirm an agent-produced change in its scratch worktree: applies, builds, unedited suite
# passes (82), demo FAILs with the change and PASSes without.  Writes a log; prints a summary.
# usage: confirm_seeded.sh <ID> <k>
ID=$1; K=$2
WT=${WTROOT:-/tmp/wt}-$ID; O=$WT/_out/$K; LOG=$O/confirm.log
cd $WT || exit 9
git checkout -q -- . ; : > $LOG
git apply --check $O/patch.diff >> $LOG 2>&1 || { echo "$ID/$K: patch does not apply"; exit 1; }
git apply $O/patch.diff
make -j8 check > $O/suite_with.log 2>&1
PASS=$(grep -E '^# PASS:' $O/suite_with.log | awk '{print $3}'); FAIL=$(grep -E '^# FAIL:' $O/suite_with.log | awk '{print $3}'); ERR=$(grep -E '^# ERROR:' $O/suite_with.log | awk '{print $3}')
echo "suite with change: pass=$PASS fail=$FAIL error=$ERR" >> $LOG
(cd $O && timeout 600 bash ./run_demo.sh > demo_with.log 2>&1); RC_WITH=$?
echo "demo with change: rc=$RC_WITH $(tail -1 $O/demo_with.log)" >> $LOG
git checkout -q -- .
make -j8 > /dev/null 2>&1
(cd $O && timeout 600 bash ./run_demo.sh > demo_without.log 2>&1); RC_WITHOUT=$?
echo "demo without change: rc=$RC_WITHOUT $(tail -1 $O/demo_without.log)" >> $LOG
OK=no; [ "$PASS" = 82 ] && [ "$FAIL" = 0 ] && [ "$ERR" = 0 ] && [ $RC_WITH -ne 0 ] && [ $RC_WITHOUT -eq 0 ] && OK=yes
echo "$ID/$K confirmed=$OK | $(tr '\n' '|' < $LOG)"
