#!/bin/bash
# every check at the thorough tier, once (usage: tools/all_thorough.sh [seed])
cd "$(dirname "$0")/.."
make -j16 setup > /dev/null 2>&1
for id in C09 C17 C18 C19 C20; do
  /usr/bin/time -f "$id wall=%es" env VERIF_SEED=${1:-1} VERIF_OUT=$PWD/thorough_out ./check $id thorough 2>&1 | grep -E "^\[|VIOLATION|NONDET|HARNESS|COVERAGE|KNOWN|wall=|class=" | cut -c1-220
  echo "$id rc=${PIPESTATUS[0]}"
done
