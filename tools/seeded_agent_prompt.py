# The prompt given to the independent sub-agents of the last seeded-change round (round 15): the property text
# (here read from /tmp/prop-<ID>.txt, a copy of the "statement"/"quantifier" of properties.jsonl), the mechanisms of all
# earlier rounds to avoid, and the procedure.  Nothing from /verif was given to them.  usage: seeded_agent_prompt.py <ID>
import sys
pid=sys.argv[1]
prop=open('/tmp/prop-%s.txt'%pid).read()
prev={
"C09":"""- push: counter-wrap test and REKEY-tag test split into two ifs (double rekey when both hold)
- pull: MAC buffer turned into a pointer so sizeof compares only 8 bytes
- portable Poly1305 (donna) update(): leftover `< 16` became `<= 16`
- rekey(): a zero counter is reset to 1 before the ratchet keystream is derived
- pull: sodium_increment called with INONCEBYTES (8) instead of COUNTERBYTES (4)
- AVX2 ChaCha20 u8.h: counter advanced by 4 instead of 8 in the 8-block loop
- pull: `inlen <= ABYTES` rejects empty messages
- pull: decrypted tag copied only if tag_p != NULL, so the tag-driven rekey is skipped for NULL tag_p
- pull: `static` scratch block (thread-safety)
- push+pull: AD padding `0x10 - (adlen & 0xf)` behind `adlen > 0` (wrong for multiples of 16)
- portable chacha20_ref: in-place partial block loses its input (affects rekey)
- private/common.h xor_buf: fast path for 8-aligned destinations skips the n = 8 case
- u4.h ONEQUAD_TRANSPOSE: wrong word in the feed-forward (AVX2 4-block path)
- counter_reset writes only counter[0]; init functions clear the nonce first (two edits)
- poly1305_sse2: block size constant made unsigned 32-bit (truncation for >= 2^32 bytes)
- u4.h 4-block loop: x_14/x_15 not reset per iteration (SSSE3 back end, >= 512 bytes)
- push+pull: `tag == TAG_REKEY` instead of `(tag & TAG_REKEY) != 0` (FINAL no longer ratchets)
- sodium_init re-runs the pick_best functions on every call (thread-safety)
- sodium_is_zero rewritten word-wise: 4-byte tail only counts its low byte (spurious rekey every 255 chunks)
- u8.h AVX2 write-back masks state word 13 with 0xFFFFFFF
- pull: returned tag masked with TAG_FINAL (application-defined tags lost)
- u8.h: per-lane block counters built with _mm256_add_epi8 (carry lost; chunks >= 16 KiB)
- pull: in[0] read before the inlen < ABYTES check
- donna64 poly1305_finish: stale byte after the terminator (no-SSE2 back end, adlen >= 256)
- init_push/init_pull memset the whole state before reading the key (breaks k aliasing state->k)
- donna64 poly1305_init no longer clears st->final (stale stack)
- sysrandom getrandom wrapper accepts a short count (stale header)
- pull: "verify only" early return when m == NULL (state not advanced for empty chunks)
- pull: partial-overlap guard with <= (adjacent buffers abort via sodium_misuse)
- push: argument check rejects m == NULL regardless of mlen
- pull: "end of stream" latch in state->_pad[0] after a FINAL chunk
- tag-requested ratchet deferred to the next call via _pad[0]; explicit rekey() forgets the pending one
- init_pull rejects an all-zero header
- init stores the state's own address in _pad; push/pull/rekey call sodium_misuse() for a relocated state
- rekey() returns early while the chunk counter is still 1
- pull() wipes the key when inlen == 0
- poly1305_sse2 final conditional subtraction: one mask a nibble too wide (accumulator in [p, 2^130))
- SSSE3 glue stream_ietf_ext_ref calls chacha_ivsetup instead of chacha_ietf_ivsetup
- MESSAGEBYTES_MAX macro counts blocks instead of bytes
- pull: MAC compared as two 64-bit words whose differences are folded with XOR
- push+pull: XOR of the MAC into the inner nonce moved after the increment/ratchet step
- rekey(): the 40 bytes to ratchet read straight from the state (k || counter || inonce[0..3])
- a key argument that is not 16-byte aligned: HChaCha20 loads the key halves with aligned SSE moves
- one chunk with at least 4 GiB of associated data: the AD length is stored in the MAC input as 32 bits (push and pull alike)
- the portable ChaCha20 back end and a single chunk larger than 4 GiB: `(unsigned int) bytes <= 64` ends the block loop after the first r bytes""",
"C17":"""- _sodium_malloc: unprotected_size rounding differs from the pointer placement when size+16 is a page multiple
- sodium_free: canary compared as two 64-bit XORs truncated to int
- _sodium_mprotect: static (last_ptr,last_cb) cache never invalidated by free
- sodium_allocarray: overflow test with && where || belongs
- _sodium_malloc: early ENOMEM threshold subtracts 3 pages instead of 4
- _sodium_malloc: a zero-byte request is treated as one byte
- _sodium_malloc: trailing guard page made read-only instead of no-access
- _alloc_aligned: mmap failure compared with NULL instead of MAP_FAILED
- _page_round: page mask narrowed to unsigned int (requests >= 4 GiB)
- sodium_allocarray: garbage fill written for one element only
- _out_of_bounds: abort() compiled only when raise() is unavailable
- _sodium_mprotect: start advanced one page for page-aligned user pointers, length unchanged
- _alloc_aligned: madvise placed before the MAP_FAILED test (errno overwritten)
- _sodium_malloc: mlock and the two guard mprotects folded into one short-circuit condition
- _sodium_mprotect: canary compared before a readonly transition
- _sodium_alloc_init: sysconf result accepted only when errno == 0 (stale errno)
- sodium_mlock: madvise(MADV_WIPEONFORK) on the guarded region
- region lookup returning a pointer to a function-local static struct (thread-safety)
- trailing guard page munmap()ed instead of PROT_NONE
- sodium_init lock-free fast path + initialized set early (thread-safety)
- MAP_LOCKED added to the guarded region's mmap flags
- sodium_memcmp accumulator made a function-local static (thread-safety)
- sodium_memcmp rewritten word-wise with an epilogue that ignores the alignment prologue
- sodium_allocarray: 128-bit cast applied to the already truncated product
- sodium_init re-runs _sodium_alloc_init (new canary) on every call
- sodium_free: canary compared only when its own mprotect() succeeded
- sodium_allocarray: branch-free divisor `count | (count == 0)` refuses (0, SIZE_MAX)
- _mprotect_readonly: exclusive end rounded up by one page (trailing guard becomes readable)
- header stores the requested size; _sodium_mprotect derives its length without the canary (three edits)
- sodium_allocarray: product rounded up to a multiple of 16
- _mprotect_noaccess: madvise(MADV_DONTNEED) before PROT_NONE (bites when mlock failed or after fork)
- sodium_allocarray: product is an uninitialised local when a factor is zero
- canary made thread-local
- _out_of_bounds(): final abort() replaced by sodium_misuse()
- sodium_mlock/sodium_munlock round the address down to a page boundary (the wipe covers the canary)
- no-access transitions munlock the region; the transition back mlocks again and rolls back on failure
- _alloc_aligned: MAP_NORESERVE added to the mmap flags
- static "mprotect unavailable" flag set on the first mprotect() failure
- _alloc_aligned: MAP_SHARED instead of MAP_PRIVATE
- _alloc_aligned: requests above PTRDIFF_MAX rejected without setting errno
- guard pages installed with an unchecked madvise(MADV_GUARD_INSTALL) probed once at init
- _sodium_malloc: an mlock() failure tolerated only for ENOMEM/EAGAIN
- a last no-access transition not followed by readwrite, then fork(): MADV_DONTFORK is set on no-access and only undone by readwrite
- mlock() failing for the allocation, then a readonly/readwrite call: the 'not locked' flag lives in the low bit of the size word that _sodium_mprotect uses as a length, so the trailing guard page is opened too
- sodium_allocarray(2^63+1, 2^63+1) (or 2^63, 2^63): a 'small factors' shortcut tests the wrapped sum of the factors""",
"C18":"""- randombytes_uniform: threshold reduction skipped for n >= 2^31 (wrong for exactly 2^31)
- randombytes_close: resets the implementation pointer so the default source is silently reinstalled
- sysrandom safe_read: every chunk written at the start of the buffer after a short read
- AVX2 ChaCha20 kernel (u4.h): counter not advanced, keystream repeats for len mod 512 in 257..511
- scalar_random: zero check moved before the mask with `continue` inside do/while
- internal generator stir(): pool wipe moved inside the first-initialisation branch
- sysrandom randombytes_linux_getrandom: loop condition `size >= chunk_size` drops the tail
- portable ChaCha20 stream_ietf_ext_ref: memset before the in-place encrypt removed
- internal generator close(): closes the device descriptor without forgetting it
- crypto_core_ristretto255_random: requests 32 instead of 64 bytes
- internal generator stream no longer thread-local
- sysrandom _randombytes_linux_getrandom: any non-negative count reported as success
- randombytes_uniform: rejection threshold cached in unsynchronised statics
- AVX2 ChaCha20 glue: memset of the output moved above the key setup (overlapping seed/output)
- internal generator stir: stream.initialized set before the key is fetched
- SSSE3 ChaCha20 glue: stream_ietf_ext_ref uses chacha_ivsetup instead of chacha_ietf_ivsetup
- portable chacha20_encrypt_bytes: `bytes <= 64` redirect without copy-back
- sc25519_is_canonical: local copy of L off by one
- internal stir_if_needed checks global.initialized instead of stream.initialized
- randombytes_uniform gives up rejecting after 64 draws
- internal close wipes the pool member-wise but forgets rnd32_outleft
- randombytes(): length cast to unsigned int (requests >= 4 GiB)
- randombytes_uniform: `r > n ? r - n : r` for bounds above 2^31
- crypto_core_ed25519_random: bit 255 masked before from_uniform
- scalar_random: do/while turned into while (stale scalar in the output buffer accepted without drawing)
- secretstream init_push/init_pull: inner nonce copied from header offset 8 instead of 16 (two edits)
- scalar_random: sodium_is_zero over 31 bytes (scalars k*2^248 rejected)
- randombytes.c: implementation pointer made thread-local
- internal generator: rnd32_outleft assignment moved after the key mixing (zero words at the end of each pool cycle)
- AVX2 u8.h: x_15 not reset at the top of the 512-byte loop
- randombytes_uniform: `min` left unset on a power-of-two fast path
- randombytes_set_implementation refuses sources whose optional stir/close is NULL
- ge25519_mont_to_ed: wrong variable in the y = 0 exceptional-case guard
- sysrandom safe_read: for-loop rewrite whose `continue` on EINTR still runs the increment with -1
- randombytes_set_implementation closes the default source first and refuses the switch when that close fails
- internal generator: pid recorded in the thread-local stream and compared with global.pid (fork not noticed)
- randombytes_set_implementation validates required members, resets the pointer to NULL on refusal
- internal generator stir: a failed getentropy is only fatal when the stream was never keyed
- crypto_core_ristretto255_scalar_random: own copy of the rejection loop without the zero test
- internal generator: pid bookkeeping helper shared by stir() and stir_if_needed() (child's pid recorded while the fork is reported)
- scrypt _str: static `setting` buffer
- internal generator: S_ISNAM fallback macro defined as 1
- a request above 256 bytes from the default source and a signal: getrandom is asked for up to 32 MiB at once and a short count is fatal
- draws at (2^32 mod n) - 1, or small draws with a power-of-two bound: the rejection threshold is computed from 2^32-1
- errno == EAGAIN left behind by an unrelated call: a lost pair of parentheses makes the getrandom retry loop consult errno after success and spin for ever""",
"C19":"""- sodium_init: unlocked fast path plus initialized=1 moved to the start of the critical section
- randombytes_uniform: rejection threshold memoised in two function-level statics
- utils.c: canary drawn lazily by the first sodium_malloc behind a plain static flag
- sodium_crit_leave: locked=0 executed after pthread_mutex_unlock
- Argon2 SSSE3 generate_addresses(): scratch blocks made static
- internal generator close(): sets global.initialized = 0, re-arming the unlocked initialisation
- sodium_set_misuse_handler: unlocked early return on `locked != 0`
- sysrandom init/stir: every stir takes getrandom_available through 1 -> 0 -> 1 (two edits)
- sodium_init returns -1 while holding the lock when sysconf fails (two edits)
- internal generator init re-probes CPU features
- critical section skipped while __libc_single_threaded
- sodium_mlock: process-wide static flag remembering an mlock refusal
- internal generator: rnd32 pool moved out of the thread-local struct into a static
- sodium_crit_enter: mutex created lazily behind a plain volatile flag
- aes256gcm: H-power table extended lazily inside the shared const state
- internal generator stir_if_needed gated on global.initialized instead of stream.initialized
- sodium_increment amd64 asm path for 12 bytes uses a 64-bit add on the last word
- sodium_crit_enter uses pthread_mutex_timedlock with a deadline
- internal generator stores the pid unconditionally on every stir (same-value write race)
- guarded-allocation canary made thread-local
- sodium_pad loop `i <= blocksize` (read-modify-write of buf[-1])
- sodium_mlock: soft RLIMIT_MEMLOCK raised and restored around an mlock retry
- sodium_init re-initialises when randombytes_implementation_name() changed
- crypto_pwhash_scryptsalsa208sha256_ll: static escrypt_local_t kept between calls
- sodium_init: already-initialised path calls randombytes_stir() outside the lock
- core_h2c: hashed over-long domain-separation tag cached in function-level statics
- sysrandom stir: closes and reopens the kept /dev/urandom descriptor when getrandom is unavailable
- scrypt: escrypt_free_region loses its reset + kdf frees its region itself (double munmap, two edits)
- sysrandom: stream made thread-local (per-thread re-initialisation, descriptor per thread)
- internal generator: library lock released around the /dev/random poll inside sodium_init
- randombytes.c implementation pointer made thread-local
- sysrandom buf: lazy unlocked /dev/urandom fallback when getrandom fails after init
- onetimeauth_poly1305_init: misaligned state overwrites the process-wide back-end pointer
- `initialized` turned into a 16-bit call counter incremented on every sodium_init()
- internal generator: one pthread_key_create per thread (destructor to wipe the stream)
- sysrandom block_on_dev_random: poll() no longer retried after EINTR
- sodium_crit_leave: thread-local ownership flag cleared only when the unlock fails
- secretstream pull: NULL tag_p pointed at a function-level static byte
- pthread_atfork handlers for the library lock installed behind a thread-local once-flag
- sodium_crit_enter/leave: signals blocked around the lock, old mask saved in one file-level static
- sodium_init latches `initialized` only if every pick-best function returned 0; AEGIS pickers return 1 on the software path
- internal generator: global generation counter bumped by close() and compared on every draw
- at least two threads inside sodium_init() before the first finishes: the return value is sampled from `initialized` before the lock is taken
- getrandom() failing on the first sodium_init(): the /dev/urandom fallback takes the (non-recursive) library lock that sodium_init already holds
- two threads with live guarded allocations, one allocating while the other's free brings an unsynchronised live-region count to zero (the canary is re-drawn)""",
"C20":"""- argon2-core allocate_memory: *region published before mmap and not reset to NULL on failure (use-after-free / stray munmap)
- argon2_verify: single cleanup label with ret initialised to ARGON2_OK (verify reports a match when the 4th malloc fails)
- utils.c _alloc_aligned: MAP_FAILED no longer converted to NULL
- argon2_initialize: allocation order swapped, error paths not (region leaked when pseudo_rands malloc fails)
- sodium_allocarray: calls _sodium_malloc itself and memsets without a NULL check
- argon2_verify: merged allocation check lost the !ctx.salt term
- scrypt: region->size set on failure + nosse kernel no longer checks the alloc return (two sites)
- argon2i_str_verify: switch fall-through into the OK case on allocation failure
- _needs_rehash: `decode(...) != 0 || fodder == NULL` evaluated in the wrong order
- argon2_verify: free(ctx.out) moved inside the success branch (leak)
- argon2_hash: out aliases the caller's buffer, error exit frees it
- argon2_free_instance: region wiped before deallocation without a NULL guard
- argon2_ctx no longer NULL-initialises instance.region + pseudo_rands failure routed through argon2_free_instance (two edits)
- _alloc_aligned: sodium_misuse() unless errno == ENOMEM after a failed mmap
- argon2_free_instance: early return when region is NULL (pseudo_rands leaked)
- argon2_initialize: error status overwritten by the following assignment
- argon2_hash: stack temporary for outlen <= 64, heap block leaked on the argon2_ctx error exit
- scrypt_platform: region fields left stale after a failed growth (two edits; internal API only)
- allocate_memory: unchecked retry without MAP_POPULATE after EAGAIN
- scrypt str_verify: single-exit rewrite lost the `ret = -1` initialiser
- argon2_hash error exit: free(out) before sodium_memzero(context.out)
- allocate_memory: descriptor-malloc failure check merged into the later check, successful mmap leaked
- escrypt_alloc_region: malloc fallback when mmap fails, still released with munmap
- argon2_hash error exit: sodium_memzero(out, encodedlen) overflows the 32-byte temporary
- argon2_verify: new early exit frees ctx.ad and ctx.salt a second time
- argon2_hash: out moved to sodium_malloc, the argon2_ctx error exit still free()s it
- argon2_verify: free(out) instead of free(ctx.out) when the out allocation fails
- scrypt str_verify: guarded `wanted` buffer not released on the escrypt_r == NULL exit
- argon2_verify: four allocation checks folded into one short-circuit condition, free(out) of an uninitialised local
- argon2_hash error exit: sodium_memzero(hash, hashlen) without NULL guard
- argon2_hash: NULL check on the temporary out dropped
- allocate_memory: descriptor fields no longer initialised + mmap-failure path uses free_memory() (two edits)
- _sodium_malloc: up-front SIZE_MAX guard replaced by wrap checks that miss _page_round() wrapping
- crypto_pwhash_str_alg: single-exit rewrite whose "no algorithm" sentinel equals the failure return
- sodium_allocarray: "product smaller than an operand" used as the overflow test
- scrypt kdf: region growth reordered (map the larger region first, free the old one afterwards)
- escrypt_alloc_region: MAP_HUGETLB attempt for regions >= 128 MiB keeps the rounded length after the fallback
- argon2_verify: context wiped (sodium_memzero(&ctx)) before its buffers are freed
- scrypt _ll: status values combined with &=
- new escrypt_grow_region() helper returns 1 on failure while callers test < 0
- argon2_initialize: pseudo_rands obtained with posix_memalign, failure still tested with == NULL
- allocate_memory: free(region) instead of free(*region) on the mmap-failure exit
- allocate_memory: descriptor built in a local and published only on success, never freed on the failure exit
- a realloc request (heap requests 5-7 of a string verification) failing: unchecked `x = realloc(x, len)` shrinks
- memory refused at commit time (mprotect to read-write failing) instead of at mapping time: the region is mapped PROT_NONE and opened with an unchecked mprotect
- out and passwd being the same buffer (refused with EINVAL on the unchanged tree) and an allocation at position 2-5 failing: the private password copy is leaked through an untouched early return""",
}[pid]
hints={
"C09":"Look beyond the obvious control flow of push/pull: the helpers they rely on (sodium_increment, sodium_is_zero, XOR_BUF, STORE64_LE, crypto_stream_chacha20_ietf_xor_ic and its SIMD back ends for particular length ranges or block-counter values, crypto_core_hchacha20, the SSE2 Poly1305 for particular message-length classes), optional out-parameters (NULL outlen_p/mlen_p/tag_p), NULL ad with adlen 0, messages of unusual sizes (zero, exactly one block, many blocks, tens of kilobytes), long streams, FINAL/PUSH tag handling, behaviour of a state that was copied or restored.",
"C17":"Look at: the interplay of several live allocations, the order of operations inside sodium_free, sodium_mlock/sodium_munlock/madvise return handling, what happens for size 0 and for sizes just below/above multiples of the page size, _unprotected_ptr_from_user_ptr, the header page contents, allocarray with zero factors, errno values, behaviour when the system page size is not 4096 (the code queries it at init), protection calls applied after other protection calls.",
"C18":"Look at generating APIs other than the plain keygens: crypto_sign_keypair/seed handling, crypto_box_seal (both variants) ephemeral key and nonce derivation, crypto_kx_keypair, crypto_core_ristretto255_random (64 bytes), crypto_core_*_scalar_random rejection loop, crypto_pwhash_*_str salt handling for each algorithm, secretstream init_push, randombytes() legacy wrapper, randombytes_buf for size 0 or large sizes (chunking at 256 bytes in the system source, EINTR/EAGAIN retry loops), randombytes_random on each built-in source, the internal generator's key ratchet / buffer management, stir/close sequences.",
"C19":"Look beyond sodium_init itself: state that is read by every call and written late or lazily, per-backend dispatch pointers, the internal generator's thread-local stream and its global part, the spin-lock variant of the critical section, guarded allocation's page_size/canary statics, helper functions that could keep a static scratch buffer or cache, lock release paths on error returns, double initialisation effects that only show when a guarded allocation made before is freed later.",
"C20":"Look beyond the Argon2 happy-path allocations: the scrypt region growth/free logic (escrypt_local reuse, escrypt_free_region on the error path, the size bookkeeping), crypto_pwhash_str_needs_rehash, string verification of malformed/foreign strings under allocation failure, the alg dispatchers in crypto_pwhash.c, errno handling, cleanup ordering (sodium_memzero before free), the posix_memalign/malloc fallback branches are not compiled on this platform so prefer code that is.",
}[pid]
print(f"""You are helping to evaluate a verification tool by producing realistic *defective variants* of the libsodium C library (jedisct1/libsodium). You work ONLY inside your own scratch git worktree at /tmp/wt15-{pid} (a full, already-configured and already-built copy of the repository: `make -j8 check` works there and currently passes all 82 tests). Do NOT read, write or run anything under /repo or /verif, and do not look at other /tmp/wt* directories.

Here is a semantic property that the library is supposed to satisfy:

---
{prop}---

Your task: produce TWO different, independent source changes to libsodium (each one a separate small patch against the worktree's HEAD) such that each change
  (a) still compiles (`make -j8` in /tmp/wt15-{pid}),
  (b) still passes the complete existing test suite, unedited (`make -j8 check` in /tmp/wt15-{pid} reports 82 passing, 0 failing/erroring),
  (c) BREAKS the property above, and
  (d) is HARD to notice: it needs something specific in order to manifest — a particular interleaving, a fault (failed allocation / system call returning an error or a short count) at a particular point, a multi-step sequence of operations, an unusual input size/value/boundary, a particular CPU-feature/backend path, a particular state carried over from an earlier call, or two cooperating sites that each look fine alone.

Fourteen previous rounds already produced the following changes for this property; do NOT repeat these mechanisms or close variations of them, find genuinely different ones:
{prev}

Suggestions for where to look this time (you need not follow them): {hints}

The earlier rounds have covered the obvious and many non-obvious places; this time you will have to dig deeper. Read the code paths end to end (including the functions the anchored files call into, in other directories) and look for the places nobody has touched yet. Prefer mechanisms of these kinds this time: changes in shared helper macros/inline functions in private headers (common.h LOAD/STORE/ROTL/XOR_BUF, sodium_memcmp/sodium_is_zero/sodium_increment helpers) that only bite for particular lengths or alignments; glue code between the C dispatchers and their SIMD/assembly back ends; compile-time constants; integer-width or signedness slips that need large or boundary values; behaviour that depends on what an EARLIER, unrelated call left behind (errno, a static, a descriptor, a thread-local); state that is carried from one call to a later call (or from one object to another); code that only runs for a rarely used API variant, parameter combination or non-default CPU back end; error paths that are only reached after an earlier step succeeded; two or three cooperating edits that are each harmless alone; boundary values that are not the obvious ones. Aim for changes that a careful reviewer could plausibly miss and that a checker which only exercises the most common paths, small sizes, a single backend or a single call sequence would miss. Think like a plausible maintainer mistake or refactoring slip. For this round in particular, consider: (i) interactions between two live objects (two states, two allocations, two threads' buffers) or two API families that share code; (ii) what remains true AFTER an error return or a rejected input (is the object / the library still usable and consistent?); (iii) fork(), signals and EINTR, errno values left behind, descriptors; (iv) degenerate or extreme arguments (0, 1, SIZE_MAX, lengths above 4 GiB, NULL where the prototype allows it, outputs aliasing inputs where the documentation allows it); (v) rarely used public entry points, legacy wrappers and per-algorithm variants that reach the same code by another route; (vi) behaviour that differs between an optimised and an unoptimised build, or between the first call in a process and later calls.

For each change k = 1..2, create the directory /tmp/wt15-{pid}/_out/k/ containing:
  - patch.diff   : output of `git diff` for that change alone (it must apply with `git apply` to a clean checkout of HEAD),
  - demo.c (or demo.cpp) + run_demo.sh : a small self-contained demonstration program and the exact script to build and run it against the worktree's library (use include path src/libsodium/include and link src/libsodium/.libs/libsodium.a with -lpthread; you may use -Wl,--wrap, threads, fork, signal handlers, custom randombytes implementations, etc.). run_demo.sh must exit 0 and print PASS on the UNCHANGED tree, and exit non-zero and print FAIL when the change is applied (after rebuilding the library). If a violation is inherently probabilistic (e.g. a race), make the demo as reliable as you can and say how reliable it is,
  - notes.md     : which clause of the property it breaks, what exactly is needed for it to manifest, why the existing tests do not notice, and the commands you ran with their results.

Procedure for each change: start from a clean tree (`git -C /tmp/wt15-{pid} checkout -- .`; the _out directory is untracked and survives), edit, `make -j8 check 2>&1 | grep -E '^# (TOTAL|PASS|FAIL|ERROR)'`, confirm 82 pass, rebuild and run the demo (must FAIL), save the patch, revert the sources, rebuild (`make -j8`), run the demo again (must PASS). Leave the worktree with clean tracked sources at the end (only _out/ added). Verify each patch applies cleanly with `git apply --check` on the clean tree.

Constraints: no network. Do not modify anything under test/. Do not add new source files to the build system (edit existing .c/.h files only). Keep each patch small (ideally under ~30 changed lines). The build uses -D flags from ./configure for x86_64 Linux with pthreads, mmap, mprotect, getrandom; the CPU supports AVX2/AVX512.

When finished, reply with a brief summary listing for each change: the file/function changed, the mechanism, what it needs to manifest, and whether the suite passed and the demo behaved as required.""")
